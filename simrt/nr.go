package simrt

// Race-detector-invisible slice helpers. The runtime's own growslice and
// slicecopy report their accesses to the race detector even when the caller is
// //go:norace, so scheduler-internal slices shared between tasks must never go
// through append or copy.

//go:norace
func push[T any](s []T, v T) []T {
	if len(s) < cap(s) {
		s = s[:len(s)+1]
		s[len(s)-1] = v
		return s
	}
	n := make([]T, len(s)+1, 2*cap(s)+8)
	for i := range s {
		n[i] = s[i]
	}
	n[len(s)] = v
	return n
}

//go:norace
func removeAt[T any](s []T, i int) []T {
	for j := i; j < len(s)-1; j++ {
		s[j] = s[j+1]
	}
	var z T
	s[len(s)-1] = z
	return s[:len(s)-1]
}

//go:norace
func clone[T any](s []T) []T {
	n := make([]T, len(s))
	for i := range s {
		n[i] = s[i]
	}
	return n
}

//go:norace
func insertAt[T any](s []T, i int, v T) []T {
	var z T
	s = push(s, z)
	for j := len(s) - 1; j > i; j-- {
		s[j] = s[j-1]
	}
	s[i] = v
	return s
}
