//go:build race

package simrt

import "runtime"

const RaceEnabled = true

func hide()   { runtime.RaceDisable() }
func unhide() { runtime.RaceEnable() }
