//go:build !race

package simrt

const RaceEnabled = false

func hide()   {}
func unhide() {}
