// Package simrt is the deterministic cooperative scheduler used by the /verif
// simulation harness. It runs inside one testing/synctest bubble per simulated
// run. Exactly one task executes user code at any moment; every choice that the
// Go runtime would otherwise make (which goroutine runs next, which ready
// select arm wins) is taken from a choice Tape, so one tape is one exactly
// repeatable execution.
//
// All scheduler-internal synchronisation is hidden from the race detector
// (RaceDisable around hand-offs, //go:norace on internals, no maps) so that a
// -race build still sees only the program's own happens-before edges.
package simrt

import (
	"fmt"
	"reflect"
	"runtime"
	"strconv"
	"strings"
	"sync"
	"testing"
	"testing/synctest"
	"time"
)

const (
	stRunnable = iota // parked on wake, may be released by the controller
	stRunning         // the one task executing user code
	stBlocked         // blocked in a real runtime operation (chan / timer)
	stWaiting         // parked on wake, waiting for a simrt lock / waitgroup
	stDead
)

type task struct {
	id    int
	name  string // spawn site
	wake  chan struct{}
	kill  chan struct{}
	state int
	site  string // where it last stopped
}

// Sched is the scheduler of one simulated run.
type Sched struct {
	mu    sync.Mutex
	tasks []*task
	next  int
	cur   *task
	last  *task
	tape  *Tape
	sig   chan struct{}

	Steps    int // controller releases
	Ops      int // scheduling points passed (incl. cheap ones)
	MaxOps   int
	Horizon  time.Duration
	start    time.Time
	preempt  int // per-mille probability of a context switch at a yield point
	spawn1st int   // per-mille probability that a spawned task runs before its parent continues
	prefer   *task // set by Go: the controller releases this task next (no tape draw)
	dying    bool
	mainDone bool
	stop     string // non-empty: why the run was cut short

	verbose bool
	trace   []string
	thash   uint64 // running hash of schedule + notes
	sighash uint64 // running hash of (task name, site) decisions and faults only
	ctxsw   int    // context switches to a different task
	vtime   time.Duration

	run *RunCtx

	tickers []tickerRec
}

type tickerRec struct {
	t    *time.Ticker
	site string
}

// S is the scheduler of the run currently executing in this process (runs are
// sequential inside a worker process).
var S *Sched

//go:norace
func (s *Sched) lock() { hide(); s.mu.Lock() }

//go:norace
func (s *Sched) unlock() { s.mu.Unlock(); unhide() }

const fnvPrime = 1099511628211

//go:norace
func mixs(h uint64, str string) uint64 {
	for i := 0; i < len(str); i++ {
		h ^= uint64(str[i])
		h *= fnvPrime
	}
	h ^= 0xff
	h *= fnvPrime
	return h
}

//go:norace
func mixu(h uint64, v uint64) uint64 {
	for i := 0; i < 8; i++ {
		h ^= v & 0xff
		h *= fnvPrime
		v >>= 8
	}
	return h
}

// notef adds a line to the trace (hash always; text only when verbose). It
// never draws from the tape and never reads a real clock.
//
//go:norace
func (s *Sched) notef(sig bool, f string, a ...any) {
	var line string
	if len(a) == 0 {
		line = f
	} else {
		line = fmt.Sprintf(f, a...)
	}
	s.lock()
	s.thash = mixs(s.thash, line)
	if sig {
		s.sighash = mixs(s.sighash, line)
	}
	if s.verbose {
		s.trace = push(s.trace, padLeft(time.Since(s.start).String(), 12)+"  "+line)
	}
	s.unlock()
}

// Note records a harness event (packet, fault, API result) in the trace.
//
//go:norace
func Note(f string, a ...any) {
	if s := S; s != nil {
		s.notef(false, f, a...)
	}
}

// NoteSig records an event that is part of the run's schedule-and-fault
// signature (fired faults).
//
//go:norace
func NoteSig(f string, a ...any) {
	if s := S; s != nil {
		s.notef(true, f, a...)
	}
}

//go:norace
func die() {
	unhide()
	runtime.Goexit()
}

// enter is called at the start of every scheduling operation by the task that
// executes it.
//
//go:norace
func (s *Sched) enter() *task {
	s.lock()
	if s.dying {
		s.mu.Unlock()
		die()
	}
	t := s.cur
	s.Ops++
	over := s.Ops > s.MaxOps && s.stop == ""
	if over {
		s.stop = "oplimit"
	}
	s.unlock()
	if t == nil {
		panic("simrt: scheduling operation from a goroutine that is not the running task")
	}
	if over {
		// Stop executing; the controller will end the run.
		s.parkAs(t, "oplimit", stWaiting)
	}
	return t
}

// parkAs stops the calling task in the given state until the controller
// releases it (or the run is torn down).
//
//go:norace
func (s *Sched) parkAs(t *task, site string, st int) {
	s.lock()
	t.state = st
	t.site = site
	if s.cur == t {
		s.cur = nil
	}
	s.unlock()
	hide()
	select {
	case s.sig <- struct{}{}:
	default:
	}
	select {
	case <-t.wake:
	case <-t.kill:
		die()
	}
	unhide()
}

//go:norace
func (s *Sched) park(t *task, site string) { s.parkAs(t, site, stRunnable) }

// maybePreempt is the cheap scheduling point: the running task itself draws
// whether a context switch may happen here; only a yes costs a controller
// round trip.
//
//go:norace
func (s *Sched) maybePreempt(t *task, site string) {
	if s.preempt == 0 {
		return
	}
	if s.tape.Intn(1000, "preempt") >= 1000-s.preempt {
		s.park(t, site)
	}
}

// Yield is a pure scheduling point.
//
//go:norace
func Yield(site string) {
	s := S
	if s == nil {
		return
	}
	t := s.enter()
	s.maybePreempt(t, site)
}

// YP yields and returns its argument; the instrumenter wraps the first
// argument of sync/atomic calls in it so that a scheduling point sits right
// before the atomic operation.
//
//go:norace
func YP[T any](site string, p T) T {
	Yield(site)
	return p
}

// Go spawns a task. The child starts parked and runnable.
//
//go:norace
func Go(site string, fn func()) {
	s := S
	if s == nil {
		go fn()
		return
	}
	s.lock()
	if s.dying {
		s.mu.Unlock()
		die()
	}
	s.next++
	t := &task{id: s.next, name: site, wake: make(chan struct{}), kill: make(chan struct{}), site: "spawn"}
	s.tasks = push(s.tasks, t)
	parent := s.cur
	s.unlock()
	// The go statement itself stays visible to the race detector: the
	// spawn edge parent -> child is part of the program's happens-before.
	go s.root(t, fn)
	hide()
	select {
	case s.sig <- struct{}{}:
	default:
	}
	unhide()
	// A go statement is a scheduling point: the child may run - even to its
	// end - before the parent executes its next statement ("dies at birth").
	if parent == nil {
		return
	}
	if s.spawn1st > 0 && s.tape.Intn(1000, "spawnfirst") >= 1000-s.spawn1st {
		s.lock()
		s.prefer = t
		s.unlock()
		s.park(parent, "go")
		return
	}
	s.maybePreempt(parent, "go")
}

//go:norace
func (s *Sched) root(t *task, fn func()) {
	hide()
	select {
	case <-t.wake:
	case <-t.kill:
		s.exit(t)
		return
	}
	unhide()
	defer func() {
		if r := recover(); r != nil {
			s.panicked(t, r)
		}
		s.exit(t)
	}()
	fn()
}

//go:norace
func (s *Sched) exit(t *task) {
	s.lock()
	t.state = stDead
	for i, x := range s.tasks {
		if x == t {
			s.tasks = removeAt(s.tasks, i)
			break
		}
	}
	if s.cur == t {
		s.cur = nil
	}
	if t.id == 1 {
		s.mainDone = true
	}
	s.unlock()
}

// panicked records a panic of a task. A panic whose innermost non-runtime,
// non-simrt frame lies in a harness file (zz_*) is a harness error, anything
// else is a panic of the code under test.
//
//go:norace
func (s *Sched) panicked(t *task, r any) {
	buf := make([]byte, 1<<16)
	buf = buf[:runtime.Stack(buf, false)]
	stack := string(buf)
	where, harness := panicOrigin(stack)
	msg := fmt.Sprintf("panic in task %d (%s): %v at %s", t.id, t.name, r, where)
	if harness {
		s.run.fail("error", "harness-panic", where, msg+"\n"+stack)
	} else {
		s.run.fail("violation", "panic", fmt.Sprintf("%v @ %s", r, where), msg+"\n"+stack)
	}
}

// panicOrigin finds the innermost frame that is not runtime / reflect / simrt.
func panicOrigin(stack string) (string, bool) {
	lines := strings.Split(stack, "\n")
	seenPanic := false
	for i := 0; i+1 < len(lines); i++ {
		fn := lines[i]
		if strings.HasPrefix(fn, "panic(") || strings.HasPrefix(fn, "runtime.gopanic") {
			seenPanic = true
			continue
		}
		if !seenPanic || !strings.HasPrefix(lines[i+1], "\t") {
			continue
		}
		if strings.HasPrefix(fn, "runtime.") || strings.HasPrefix(fn, "reflect.") ||
			strings.HasPrefix(fn, "simrt.") || strings.Contains(fn, "/simrt.") {
			continue
		}
		loc := strings.TrimSpace(lines[i+1])
		if k := strings.Index(loc, " +0x"); k >= 0 {
			loc = loc[:k]
		}
		if k := strings.LastIndex(loc, "/"); k >= 0 {
			loc = loc[k+1:]
		}
		name := fn
		if k := strings.LastIndex(name, "("); k >= 0 {
			name = name[:k]
		}
		if k := strings.LastIndex(name, "/"); k >= 0 {
			name = name[k+1:]
		}
		return name + " " + loc, strings.HasPrefix(loc, "zz_")
	}
	return "unknown", false
}

// Case is one arm of a select.
type Case struct {
	Dir  reflect.SelectDir
	Chan reflect.Value
	Send reflect.Value
}

// R is a receive case whose value is not used.
func R(ch any) Case { return Case{Dir: reflect.SelectRecv, Chan: reflect.ValueOf(ch)} }

// Snd is a send case.
func Snd(ch any, v any) Case {
	c := reflect.ValueOf(ch)
	var sv reflect.Value
	if v == nil {
		sv = reflect.Zero(c.Type().Elem())
	} else {
		sv = reflect.ValueOf(v)
		if sv.Type() != c.Type().Elem() {
			sv = sv.Convert(c.Type().Elem())
		}
	}
	return Case{Dir: reflect.SelectSend, Chan: c, Send: sv}
}

// Result of a Select.
type Result struct {
	I  int // chosen case, -1 = default
	V  reflect.Value
	OK bool
}

func get[T any](r Result) T {
	var z T
	if !r.V.IsValid() {
		return z
	}
	v, _ := r.V.Interface().(T)
	return v
}

// RecvCase is a typed receive case, so that the received value keeps its
// static type without go/types in the instrumenter.
type RecvCase[T any] struct{ c Case }

func RC[T any](ch <-chan T) RecvCase[T] { return RecvCase[T]{c: R(ch)} }
func (r RecvCase[T]) C() Case           { return r.c }
func (r RecvCase[T]) Val(res Result) T  { return get[T](res) }

// Select is the scheduling point for every channel operation.
//
//go:norace
func Select(site string, hasDefault bool, cases ...Case) Result {
	s := S
	if s == nil {
		return plainSelect(hasDefault, cases)
	}
	t := s.enter()
	s.maybePreempt(t, site)
	n := len(cases)
	// Try the cases one at a time, non-blocking, in tape-decided order
	// (tape value 0 = source order).
	var orderBuf [8]int
	order := orderBuf[:0]
	for i := 0; i < n; i++ {
		order = append(order, i)
	}
	if s.tape.shuffle {
		for i := 0; i < n-1; i++ {
			j := i + s.tape.Intn(n-i, "selorder")
			order[i], order[j] = order[j], order[i]
		}
	}
	var two [2]reflect.SelectCase
	two[1] = reflect.SelectCase{Dir: reflect.SelectDefault}
	for _, i := range order {
		c := cases[i]
		if !c.Chan.IsValid() || c.Chan.IsNil() {
			continue
		}
		two[0] = reflect.SelectCase{Dir: c.Dir, Chan: c.Chan, Send: c.Send}
		k, v, ok := reflect.Select(two[:])
		if k == 0 {
			return Result{I: i, V: v, OK: ok}
		}
	}
	if hasDefault {
		return Result{I: -1}
	}
	// Block for real; whoever completes our operation wakes us, then we
	// park again before touching user code.
	s.lock()
	t.state = stBlocked
	t.site = site
	if s.cur == t {
		s.cur = nil
	}
	s.unlock()
	rc := make([]reflect.SelectCase, n+1)
	for i, c := range cases {
		rc[i] = reflect.SelectCase{Dir: c.Dir, Chan: c.Chan, Send: c.Send}
	}
	rc[n] = reflect.SelectCase{Dir: reflect.SelectRecv, Chan: reflect.ValueOf(t.kill)}
	// Not hidden from the race detector: the program's own channel
	// synchronisation must stay visible. The kill channel is only ever
	// closed by the (hidden) controller, so it adds no edge.
	k, v, ok := reflect.Select(rc)
	if k == n {
		runtime.Goexit()
	}
	s.park(t, site)
	return Result{I: k, V: v, OK: ok}
}

func plainSelect(hasDefault bool, cases []Case) Result {
	rc := make([]reflect.SelectCase, 0, len(cases)+1)
	for _, c := range cases {
		rc = append(rc, reflect.SelectCase{Dir: c.Dir, Chan: c.Chan, Send: c.Send})
	}
	if hasDefault {
		rc = append(rc, reflect.SelectCase{Dir: reflect.SelectDefault})
	}
	k, v, ok := reflect.Select(rc)
	if hasDefault && k == len(cases) {
		return Result{I: -1}
	}
	return Result{I: k, V: v, OK: ok}
}

// Block implements `select {}`.
//
//go:norace
func Block(site string) {
	s := S
	if s == nil {
		select {}
	}
	t := s.enter()
	s.parkAs(t, site, stWaiting)
	select {}
}

//go:norace
func Send(site string, ch any, v any) { Select(site, false, Snd(ch, v)) }

func Recv[T any](site string, ch <-chan T) T {
	return get[T](Select(site, false, R(ch)))
}

func Recv2[T any](site string, ch <-chan T) (T, bool) {
	r := Select(site, false, R(ch))
	return get[T](r), r.OK
}

//go:norace
func Close(site string, ch any) {
	Yield(site)
	reflect.ValueOf(ch).Close()
}

//go:norace
func Sleep(site string, d time.Duration) {
	s := S
	if s == nil {
		time.Sleep(d)
		return
	}
	t := s.enter()
	s.maybePreempt(t, site)
	if d <= 0 {
		return
	}
	s.lock()
	t.state = stBlocked
	t.site = site
	if s.cur == t {
		s.cur = nil
	}
	s.unlock()
	hide()
	tm := time.NewTimer(d)
	select {
	case <-tm.C:
	case <-t.kill:
		tm.Stop()
		die()
	}
	unhide()
	s.park(t, site)
}

// AfterFunc mirrors time.AfterFunc; the callback runs as a task.
//
//go:norace
func AfterFunc(site string, d time.Duration, f func()) *time.Timer {
	if S == nil {
		return time.AfterFunc(d, f)
	}
	return time.AfterFunc(d, func() { Go(site, f) })
}

// NewTicker mirrors time.NewTicker and remembers the ticker, so that a leak
// oracle can ask whether it still ticks after its owner was closed.
//
//go:norace
func NewTicker(site string, d time.Duration) *time.Ticker {
	t := time.NewTicker(d)
	if s := S; s != nil {
		s.lock()
		s.tickers = push(s.tickers, tickerRec{t, site})
		s.unlock()
	}
	return t
}

// TickingTickers drains every recorded ticker, lets `wait` of virtual time
// pass and reports the creation sites of those that produced a tick.
//
//go:norace
func TickingTickers(wait time.Duration) []string {
	s := S
	s.lock()
	ts := clone(s.tickers)
	s.unlock()
	for _, r := range ts {
		select {
		case <-r.t.C:
		default:
		}
	}
	Sleep("tickers.wait", wait)
	var out []string
	for _, r := range ts {
		select {
		case <-r.t.C:
			out = push(out, r.site)
		default:
		}
	}
	return out
}

// Choose lets harness code draw from the run's tape. 0 is the benign choice.
//
//go:norace
func Choose(n int, label string) int {
	if n <= 1 {
		return 0
	}
	return S.tape.Intn(n, label)
}

// Pm draws a per-mille event; a tape value of 0 means "does not happen".
//
//go:norace
func Pm(pm int, label string) bool {
	if pm <= 0 {
		return false
	}
	return S.tape.Intn(1000, label) >= 1000-pm
}

// Live returns the spawn sites of all live tasks other than the caller.
//
//go:norace
func Live() []string {
	s := S
	var out []string
	s.lock()
	for _, t := range s.tasks {
		if t != s.cur && t.state != stDead {
			out = push(out, t.name+"@"+t.site)
		}
	}
	s.unlock()
	return out
}

// Now returns virtual time since the start of the run.
//
//go:norace
func Now() time.Duration { return time.Since(S.start) }

// runSched drives the schedule until the main task returns, a violation is
// recorded, or a limit is hit. It is the bubble's main goroutine.
//
//go:norace
func (s *Sched) runSched(main func()) {
	S = s
	s.start = time.Now()
	// Spawned before the controller hides itself: the first task must
	// inherit everything that happened before the run (package inits, the
	// scenario's captured variables).
	horizon := time.NewTimer(s.Horizon) // before the spawn: also warms time's lazy initialisation visibly
	defer horizon.Stop()
	Go("main", main)
	hide() // from here on the controller takes no part in the program's happens-before
	defer unhide()
	var run []*task
	for {
		synctest.Wait()
		s.mu.Lock()
		if s.stop == "" && s.run.verdict != "" {
			s.stop = "verdict"
		}
		run = run[:0]
		for _, t := range s.tasks {
			if t.state == stRunnable {
				run = push(run, t)
			}
			if t.state == stRunning && s.run.verdict == "" {
				// Everything is durably blocked, yet this task never
				// reached a scheduling point: it blocks in something
				// the simulator does not control.
				s.run.verdict, s.run.oracle, s.run.cause = "error", "unscheduled-block", t.name
				s.run.msg = "task " + strconv.Itoa(t.id) + " (" + t.name + ") blocked outside the scheduler after " + t.site
				s.stop = "error"
			}
		}
		done := s.mainDone || s.stop != ""
		s.mu.Unlock()
		if done {
			break
		}
		if len(run) == 0 {
			select {
			case <-s.sig:
			case <-horizon.C:
				s.mu.Lock()
				s.stop = "horizon"
				s.mu.Unlock()
			}
			continue
		}
		// choice 0 = keep running the task that ran last, if it is runnable
		if s.last != nil {
			for i, t := range run {
				if t == s.last {
					for j := i; j > 0; j-- {
						run[j] = run[j-1]
					}
					run[0] = t
					break
				}
			}
		}
		k := 0
		pref := -1
		s.mu.Lock()
		if s.prefer != nil {
			for i, t := range run {
				if t == s.prefer {
					pref = i
					break
				}
			}
			s.prefer = nil
		}
		s.mu.Unlock()
		if pref >= 0 {
			k = pref
		} else if len(run) > 1 {
			k = s.tape.Intn(len(run), "sched")
		}
		t := run[k]
		s.mu.Lock()
		s.Steps++
		if t != s.last {
			s.ctxsw++
		}
		s.thash = mixs(mixu(s.thash, uint64(t.id)), t.site)
		if k != 0 {
			s.sighash = mixs(mixs(s.sighash, t.name), t.site)
		}
		if s.verbose {
			s.trace = push(s.trace, padLeft(time.Since(s.start).String(), 12)+"  run #"+strconv.Itoa(t.id)+" "+t.name+" @"+t.site+" (choice "+strconv.Itoa(k)+"/"+strconv.Itoa(len(run))+")")
		}
		t.state = stRunning
		s.cur = t
		s.last = t
		s.mu.Unlock()
		select {
		case <-s.sig:
		default:
		}
		t.wake <- struct{}{}
	}
	s.vtime = time.Since(s.start)
	// Tear down: kill every remaining task, one at a time so that the
	// deferred calls they run never overlap.
	s.mu.Lock()
	s.dying = true
	s.run.leftover = s.run.leftover[:0]
	for _, t := range s.tasks {
		s.run.leftover = push(s.run.leftover, t.name+"@"+t.site)
	}
	ts := clone(s.tasks)
	s.mu.Unlock()
	for _, t := range ts {
		close(t.kill)
		synctest.Wait()
	}
	S = nil
}

func padLeft(s string, n int) string {
	for len(s) < n {
		s = " " + s
	}
	return s
}

// Spec describes one simulated run.
type Spec struct {
	Prop     string
	Scenario string
	Idx      int
	Seed     uint64
	Replay   []uint32 // nil: generate from Seed
	Record   bool     // keep the drawn tape in the outcome
	Verbose  bool     // keep the textual trace
	MaxOps   int
	Horizon  time.Duration
	Serial   bool // single-task computation: no preemption draws at all
	Main     func(rc *RunCtx)
}

// Execute performs one simulated run in a fresh bubble and returns its outcome.
func Execute(t *testing.T, sp Spec) (out *Outcome) {
	tape := NewTape(sp.Seed, sp.Replay, sp.Record)
	rc := &RunCtx{spec: sp}
	s := &Sched{
		tape: tape, MaxOps: sp.MaxOps, Horizon: sp.Horizon,
		verbose: sp.Verbose, run: rc, thash: 14695981039346656037, sighash: 14695981039346656037,
	}
	if s.MaxOps == 0 {
		s.MaxOps = 4 << 20
	}
	if s.Horizon == 0 {
		s.Horizon = 24 * time.Hour
	}
	rc.s = s
	var bubblePanic any
	// A sub-test per run: a failure that the testing package itself records
	// (e.g. "race detected during execution of test") must not end the worker.
	t.Run("run", func(t *testing.T) {
		defer func() {
			if r := recover(); r != nil {
				bubblePanic = r
			}
		}()
		synctest.Test(t, func(t *testing.T) {
			// Every channel the scheduler blocks on must be created
			// inside the bubble, or blocking on it is not "durable".
			s.sig = make(chan struct{}, 1)
			// Per-run swarm knobs owned by the scheduler itself.
			pms := [...]int{0, 0, 5, 30, 150, 400}
			s.preempt = pms[tape.Intn(len(pms), "knob.preempt")]
			tape.shuffle = tape.Intn(2, "knob.selshuffle") == 1
			sfs := [...]int{0, 0, 0, 100, 300}
			s.spawn1st = sfs[tape.Intn(len(sfs), "knob.spawnfirst")]
			if sp.Serial {
				s.preempt = 0
				s.spawn1st = 0
			}
			s.runSched(func() { sp.Main(rc) })
		})
	})
	S = nil
	out = rc.outcome()
	if bubblePanic != nil && out.Verdict != "violation" {
		out.Verdict = "error"
		out.Oracle = "bubble"
		out.Msg = fmt.Sprintf("bubble ended abnormally: %v; leftover=%v", bubblePanic, rc.leftover)
	}
	return out
}
