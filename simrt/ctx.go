package simrt

import (
	"fmt"
	"time"
)

// KV is a named counter. Slices instead of maps: map internals are visible to
// the race detector, simrt must stay invisible.
type KV struct {
	K string `json:"k"`
	V int    `json:"v"`
}

type KS struct {
	K string `json:"k"`
	V string `json:"v"`
}

// RunCtx is handed to a scenario; it collects knobs, fault and probe counters,
// the verdict and the signature of the run.
type RunCtx struct {
	s        *Sched
	spec     Spec
	verdict  string // "", "violation", "error"
	oracle   string
	cause    string
	msg      string
	faults   []KV
	probes   []KV
	knobs    []KS
	leftover []string
	progress bool
	states   []uint64 // distinct abstract states seen (sorted insert, capped)
	sample   string
}

// Outcome is the result of one simulated run.
type Outcome struct {
	Prop       string   `json:"prop"`
	Scenario   string   `json:"scenario"`
	Idx        int      `json:"idx"`
	Seed       uint64   `json:"seed"`
	Verdict    string   `json:"verdict"` // ok | violation | truncated | error
	Oracle     string   `json:"oracle,omitempty"`
	Cause      string   `json:"cause,omitempty"`
	Msg        string   `json:"msg,omitempty"`
	Stop       string   `json:"stop,omitempty"`
	Steps      int      `json:"steps"`
	Ops        int      `json:"ops"`
	CtxSw      int      `json:"ctxsw"`
	VTimeMs    int64    `json:"vtime_ms"`
	TraceHash  string   `json:"trace_hash"`
	SigHash    string   `json:"sig_hash"`
	Nontrivial bool     `json:"nontrivial"`
	Faults     []KV     `json:"faults,omitempty"`
	Probes     []KV     `json:"probes,omitempty"`
	Knobs      []KS     `json:"knobs,omitempty"`
	States     []uint64 `json:"-"`
	Draws      int      `json:"draws"`
	Tape       []uint32 `json:"tape,omitempty"`
	Trace      []string `json:"trace,omitempty"`
	Leftover   []string `json:"leftover,omitempty"`
	Sample     string   `json:"sample,omitempty"`
}

//go:norace
func bump(l *[]KV, k string, d int) {
	for i := range *l {
		if (*l)[i].K == k {
			(*l)[i].V += d
			return
		}
	}
	*l = push(*l, KV{k, d})
}

// Fault counts a fault that actually fired (not merely configured) and makes
// it part of the run's signature.
//
//go:norace
func (rc *RunCtx) Fault(kind string) {
	rc.s.lock()
	bump(&rc.faults, kind, 1)
	rc.s.sighash = mixs(rc.s.sighash, kind)
	rc.s.unlock()
}

// Probe counts a "this rare condition was hit" event.
//
//go:norace
func (rc *RunCtx) Probe(name string) {
	rc.s.lock()
	bump(&rc.probes, name, 1)
	rc.s.unlock()
}

//go:norace
func (rc *RunCtx) ProbeN(name string, n int) {
	rc.s.lock()
	bump(&rc.probes, name, n)
	rc.s.unlock()
}

// Knob records a per-run configuration value.
//
//go:norace
func (rc *RunCtx) Knob(k string, v any) {
	// fmt has internal synchronisation (sync.Pool): never call it hidden
	val := fmt.Sprint(v)
	rc.s.lock()
	rc.knobs = push(rc.knobs, KS{k, val})
	// the configuration of a run is part of what makes it a distinct case
	rc.s.sighash = mixs(mixs(rc.s.sighash, k), val)
	rc.s.unlock()
}

// Progress marks that the run made protocol progress (a run without progress
// is never counted as non-trivial).
//
//go:norace
func (rc *RunCtx) Progress() {
	rc.s.lock()
	rc.progress = true
	rc.s.unlock()
}

// State records an abstract protocol state reached by this run.
//
//go:norace
func (rc *RunCtx) State(parts ...uint64) {
	h := uint64(14695981039346656037)
	for _, p := range parts {
		h = mixu(h, p)
	}
	rc.s.lock()
	defer rc.s.unlock()
	if len(rc.states) >= 4096 {
		return
	}
	lo, hi := 0, len(rc.states)
	for lo < hi {
		m := (lo + hi) / 2
		if rc.states[m] < h {
			lo = m + 1
		} else {
			hi = m
		}
	}
	if lo < len(rc.states) && rc.states[lo] == h {
		return
	}
	rc.states = insertAt(rc.states, lo, h)
}

// Sample stores a short human-readable description of this run's case.
//
//go:norace
func (rc *RunCtx) Sample(f string, a ...any) {
	v := fmt.Sprintf(f, a...)
	rc.s.lock()
	rc.sample = v
	rc.s.unlock()
}

//go:norace
func (rc *RunCtx) fail(verdict, oracle, cause, msg string) {
	rc.s.lock()
	if rc.verdict == "" {
		rc.verdict, rc.oracle, rc.cause, rc.msg = verdict, oracle, cause, msg
	}
	rc.s.unlock()
}

// Violate records a property violation. oracle identifies the check that
// fired, cause is a normalised description of what failed (used to match
// known findings), the rest is free text. Only the first violation of a run
// is kept. The run is ended at the next scheduling point.
//
//go:norace
func (rc *RunCtx) Violate(oracle, cause, f string, a ...any) {
	msg := fmt.Sprintf(f, a...)
	rc.s.notef(false, "VIOLATION %s [%s] %s", oracle, cause, msg)
	rc.fail("violation", oracle, cause, msg)
}

// HarnessError records a problem of the harness itself (never a verdict).
//
//go:norace
func (rc *RunCtx) HarnessError(f string, a ...any) {
	rc.fail("error", "harness", "harness", fmt.Sprintf(f, a...))
}

// Failed reports whether a verdict has already been recorded.
//
//go:norace
func (rc *RunCtx) Failed() bool {
	rc.s.lock()
	defer rc.s.unlock()
	return rc.verdict != ""
}

func (rc *RunCtx) Idx() int          { return rc.spec.Idx }
func (rc *RunCtx) Seed() uint64      { return rc.spec.Seed }
func (rc *RunCtx) Scenario() string  { return rc.spec.Scenario }
func (rc *RunCtx) Now() time.Duration { return time.Since(rc.s.start) }

// Pick draws a value in [0,n); 0 is the benign choice.
func (rc *RunCtx) Pick(n int, label string) int { return Choose(n, label) }

// Range draws a value in [lo,hi]; lo is the benign choice.
func (rc *RunCtx) Range(lo, hi int, label string) int {
	if hi <= lo {
		return lo
	}
	return lo + Choose(hi-lo+1, label)
}

// Pm draws a per-mille event.
func (rc *RunCtx) Pm(pm int, label string) bool { return Pm(pm, label) }

func (rc *RunCtx) outcome() *Outcome {
	s := rc.s
	o := &Outcome{
		Prop: rc.spec.Prop, Scenario: rc.spec.Scenario, Idx: rc.spec.Idx, Seed: rc.spec.Seed,
		Verdict: rc.verdict, Oracle: rc.oracle, Cause: rc.cause, Msg: rc.msg, Stop: s.stop,
		Steps: s.Steps, Ops: s.Ops, CtxSw: s.ctxsw,
		VTimeMs:   int64(s.vtime / time.Millisecond),
		TraceHash: fmt.Sprintf("%016x", s.thash), SigHash: fmt.Sprintf("%016x", s.sighash),
		Faults: rc.faults, Probes: rc.probes, Knobs: rc.knobs, States: rc.states,
		Draws: s.tape.Draws, Leftover: rc.leftover, Sample: rc.sample,
	}
	if o.Verdict == "" {
		switch s.stop {
		case "", "verdict":
			o.Verdict = "ok"
		default:
			o.Verdict = "truncated"
		}
	}
	nf := 0
	for _, f := range rc.faults {
		nf += f.V
	}
	o.Nontrivial = rc.progress && (s.ctxsw > 1 || nf > 0)
	if rc.spec.Record {
		o.Tape = s.tape.Rec
	}
	if rc.spec.Verbose {
		o.Trace = s.trace
	}
	return o
}
