package simrt

import "sync"

type waitq struct{ ts []*task }

//go:norace
func (s *Sched) addWaiter(w *waitq, t *task) {
	s.lock()
	w.ts = push(w.ts, t)
	s.unlock()
}

//go:norace
func (s *Sched) wakeAll(w *waitq) {
	s.lock()
	for _, t := range w.ts {
		if t.state == stWaiting {
			t.state = stRunnable
		}
	}
	w.ts = w.ts[:0]
	s.unlock()
}

// Mutex is a scheduler-aware mutex around a real sync.Mutex: contention parks
// the task (visible to the scheduler) instead of blocking the thread, while
// the genuine acquire/release edges stay visible to the race detector.
type Mutex struct {
	m sync.Mutex
	w waitq
}

//go:norace
func (m *Mutex) Lock() {
	s := S
	if s == nil {
		m.m.Lock()
		return
	}
	t := s.enter()
	s.maybePreempt(t, "lock")
	for !m.m.TryLock() {
		s.addWaiter(&m.w, t)
		s.parkAs(t, "lock.wait", stWaiting)
	}
}

//go:norace
func (m *Mutex) TryLock() bool {
	Yield("trylock")
	return m.m.TryLock()
}

//go:norace
func (m *Mutex) Unlock() {
	m.m.Unlock()
	s := S
	if s == nil {
		return
	}
	t := s.enter()
	s.wakeAll(&m.w)
	s.maybePreempt(t, "unlock")
}

// RWMutex mirrors sync.RWMutex including its writer preference: while a
// writer is waiting for the lock, new readers block - so a recursive read lock
// deadlocks exactly as it does with the real type.
type RWMutex struct {
	m  sync.RWMutex
	w  waitq
	ww int // writers waiting (guarded by the scheduler lock)
}

//go:norace
func (m *RWMutex) Lock() {
	s := S
	if s == nil {
		m.m.Lock()
		return
	}
	t := s.enter()
	s.maybePreempt(t, "lock")
	waiting := false
	for !m.m.TryLock() {
		s.lock()
		if !waiting {
			m.ww++
			waiting = true
		}
		m.w.ts = push(m.w.ts, t)
		s.unlock()
		s.parkAs(t, "lock.wait", stWaiting)
	}
	if waiting {
		s.lock()
		m.ww--
		s.unlock()
	}
}

//go:norace
func (m *RWMutex) Unlock() {
	m.m.Unlock()
	s := S
	if s == nil {
		return
	}
	t := s.enter()
	s.wakeAll(&m.w)
	s.maybePreempt(t, "unlock")
}

//go:norace
func (m *RWMutex) RLock() {
	s := S
	if s == nil {
		m.m.RLock()
		return
	}
	t := s.enter()
	s.maybePreempt(t, "rlock")
	for {
		s.lock()
		blocked := m.ww > 0
		if blocked {
			m.w.ts = push(m.w.ts, t)
		}
		s.unlock()
		if !blocked {
			if m.m.TryRLock() {
				return
			}
			s.addWaiter(&m.w, t)
		}
		s.parkAs(t, "rlock.wait", stWaiting)
	}
}

//go:norace
func (m *RWMutex) RUnlock() {
	m.m.RUnlock()
	s := S
	if s == nil {
		return
	}
	t := s.enter()
	s.wakeAll(&m.w)
	s.maybePreempt(t, "runlock")
}

//go:norace
func (m *RWMutex) TryLock() bool { Yield("trylock"); return m.m.TryLock() }

//go:norace
func (m *RWMutex) TryRLock() bool { Yield("tryrlock"); return m.m.TryRLock() }

type WaitGroup struct {
	wg sync.WaitGroup
	n  int
	w  waitq
	// sema models the race annotations of sync.WaitGroup ("Wait must be
	// synchronized with the first Add"): the real Wait is only ever called
	// here with a zero counter, so it never makes that annotation itself. An
	// Add that raises the counter from zero reads sema, the first task that has
	// to block in Wait writes it; both accesses are plain and visible to the
	// race detector (wgSemaRead/wgSemaWrite are neither norace nor inlined), so an Add from
	// zero that is not ordered with a blocking Wait is reported exactly as
	// `go test -race` reports it on the real type.
	sema    int32
	waiters int
}

//go:noinline
func wgSemaRead(p *int32) int32 { return *p }

//go:noinline
func wgSemaWrite(p *int32) { *p = 0 }

//go:norace
func (w *WaitGroup) Add(d int) {
	s := S
	if s == nil {
		w.wg.Add(d)
		return
	}
	s.enter()
	s.lock()
	w.n += d
	zero := w.n == 0
	first := d > 0 && w.n == d
	s.unlock()
	if first {
		wgSemaRead(&w.sema)
	}
	w.wg.Add(d)
	if zero {
		s.wakeAll(&w.w)
	}
}

//go:norace
func (w *WaitGroup) Done() { w.Add(-1) }

//go:norace
func (w *WaitGroup) Go(f func()) {
	w.Add(1)
	Go("wg.Go", func() {
		defer w.Done()
		f()
	})
}

//go:norace
func (w *WaitGroup) Wait() {
	s := S
	if s == nil {
		w.wg.Wait()
		return
	}
	t := s.enter()
	s.maybePreempt(t, "wg.wait")
	counted := false
	for {
		s.lock()
		n := w.n
		firstWaiter := false
		if n != 0 {
			w.w.ts = push(w.w.ts, t)
			firstWaiter = w.waiters == 0 && !counted
			if !counted {
				w.waiters++
				counted = true
			}
		}
		s.unlock()
		if firstWaiter {
			wgSemaWrite(&w.sema)
		}
		if n == 0 {
			break
		}
		s.parkAs(t, "wg.wait", stWaiting)
	}
	if counted {
		s.lock()
		w.waiters--
		s.unlock()
	}
	w.wg.Wait() // returns at once; keeps the genuine happens-before edge
}

type Once struct {
	m    Mutex
	done bool
}

func (o *Once) Do(f func()) {
	o.m.Lock()
	defer o.m.Unlock()
	if !o.done {
		defer func() { o.done = true }()
		f()
	}
}
