package simrt

// Tape is the single source of every nondeterministic choice of a run.
// Generate mode: splitmix64 from the run seed. Replay mode: values come from a
// recorded list; past its end, or when a value is out of range, the choice is 0
// (0 is always the benign choice: keep running, source order, no fault).
type Tape struct {
	x       uint64
	replay  []uint32
	isRep   bool
	pos     int
	record  bool
	Rec     []uint32
	shuffle bool
	Draws   int
}

func NewTape(seed uint64, replay []uint32, record bool) *Tape {
	return &Tape{x: seed, replay: replay, isRep: replay != nil, record: record}
}

//go:norace
func (t *Tape) Intn(n int, _ string) int {
	if n <= 1 {
		return 0
	}
	t.Draws++
	var v int
	if t.isRep {
		if t.pos < len(t.replay) {
			if r := int(t.replay[t.pos]); r < n {
				v = r
			}
		}
		t.pos++
	} else {
		t.x += 0x9e3779b97f4a7c15
		z := t.x
		z = (z ^ (z >> 30)) * 0xbf58476d1ce4e5b9
		z = (z ^ (z >> 27)) * 0x94d049bb133111eb
		z ^= z >> 31
		v = int(z % uint64(n))
	}
	if t.record {
		t.Rec = push(t.Rec, uint32(v))
	}
	return v
}

// Mix derives a run seed from the batch seed, the property and the run index.
func Mix(seed uint64, prop string, scen string, idx int) uint64 {
	h := uint64(14695981039346656037)
	h = mixu(h, seed)
	h = mixs(h, prop)
	h = mixs(h, scen)
	h = mixu(h, uint64(idx))
	// final avalanche
	h ^= h >> 33
	h *= 0xff51afd7ed558ccd
	h ^= h >> 33
	return h
}
