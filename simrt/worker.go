package simrt

import (
	"bufio"
	"encoding/json"
	"fmt"
	"os"
	"sort"
	"strconv"
	"strings"
	"testing"
	"time"
)

// Scenario is one kind of simulated run (or one enumerated family of cases)
// that decides a property.
type Scenario struct {
	Prop string
	Name string
	// Enumerated scenarios explore exactly Count(tier) cases, idx selecting
	// the case. Sampled scenarios use idx only to derive the run seed and
	// Count(tier) is the number of runs wanted.
	Enumerated bool
	Count      func(tier string) int
	Run        func(rc *RunCtx)
	MaxOps     int
	Horizon    time.Duration
	Serial     bool
	Doc        string
}

var registry []*Scenario

func Register(sc *Scenario) { registry = append(registry, sc) }

func find(prop, name string) *Scenario {
	for _, sc := range registry {
		if sc.Prop == prop && sc.Name == name {
			return sc
		}
	}
	return nil
}

func (sc *Scenario) spec(seed uint64, idx int) Spec {
	return Spec{Prop: sc.Prop, Scenario: sc.Name, Idx: idx, Seed: Mix(seed, sc.Prop, sc.Name, idx),
		MaxOps: sc.MaxOps, Horizon: sc.Horizon, Serial: sc.Serial, Main: sc.Run}
}

type batchSummary struct {
	Kind       string   `json:"kind"`
	Prop       string   `json:"prop"`
	Scenario   string   `json:"scenario"`
	Runs       int      `json:"runs"`
	OK         int      `json:"ok"`
	Violations int      `json:"violations"`
	Truncated  int      `json:"truncated"`
	Errors     int      `json:"errors"`
	Nontrivial int      `json:"nontrivial"`
	Steps      int64    `json:"steps"`
	Ops        int64    `json:"ops"`
	VTimeMs    int64    `json:"vtime_ms"`
	Faults     []KV     `json:"faults"`
	Probes     []KV     `json:"probes"`
	Sigs       []string `json:"sigs"`   // distinct signature hashes of non-trivial runs
	States     []string `json:"states"` // distinct abstract states
	Samples    []string `json:"samples"`
	WallS      float64  `json:"wall_s"`
	Complete   bool     `json:"complete"` // all requested idx values were run
}

func envInt(k string, d int) int {
	if v := os.Getenv(k); v != "" {
		n, err := strconv.Atoi(v)
		if err == nil {
			return n
		}
	}
	return d
}

// WorkerMain is the body of the single Test function of a harness binary.
// What it does is selected by SIM_MODE.
func WorkerMain(t *testing.T) {
	mode := os.Getenv("SIM_MODE")
	switch mode {
	case "":
		t.Skip("SIM_MODE not set (this binary is driven by /verif/check)")
	case "list":
		doList()
	case "batch":
		doBatch(t)
	case "replay":
		doReplay(t)
	case "minimise":
		doMinimise(t)
	case "single":
		doSingle(t)
	default:
		fmt.Fprintln(os.Stderr, "unknown SIM_MODE", mode)
		os.Exit(2)
	}
}

func openOut() (*bufio.Writer, func()) {
	path := os.Getenv("SIM_OUT")
	if path == "" {
		w := bufio.NewWriter(os.Stdout)
		return w, func() { w.Flush() }
	}
	f, err := os.Create(path)
	if err != nil {
		fmt.Fprintln(os.Stderr, err)
		os.Exit(2)
	}
	w := bufio.NewWriter(f)
	return w, func() { w.Flush(); f.Close() }
}

func emit(w *bufio.Writer, v any) {
	b, err := json.Marshal(v)
	if err != nil {
		fmt.Fprintln(os.Stderr, "marshal:", err)
		os.Exit(2)
	}
	w.Write(b)
	w.WriteByte('\n')
}

func doList() {
	w, done := openOut()
	defer done()
	prop := os.Getenv("SIM_PROP")
	for _, sc := range registry {
		if prop != "" && sc.Prop != prop {
			continue
		}
		emit(w, map[string]any{"kind": "scenario", "prop": sc.Prop, "scenario": sc.Name,
			"enumerated": sc.Enumerated, "quick": sc.Count("quick"), "thorough": sc.Count("thorough"), "doc": sc.Doc})
	}
}

func seedEnv() uint64 {
	v := os.Getenv("SIM_SEED")
	if v == "" {
		return 1
	}
	n, err := strconv.ParseUint(v, 10, 64)
	if err != nil {
		fmt.Fprintln(os.Stderr, "bad SIM_SEED")
		os.Exit(2)
	}
	return n
}

// doBatch runs idx = from, from+stride, ... < to of one scenario.
func doBatch(t *testing.T) {
	w, done := openOut()
	defer done()
	sc := find(os.Getenv("SIM_PROP"), os.Getenv("SIM_SCEN"))
	if sc == nil {
		fmt.Fprintln(os.Stderr, "no such scenario", os.Getenv("SIM_PROP"), os.Getenv("SIM_SCEN"))
		os.Exit(2)
	}
	seed := seedEnv()
	from, to, stride := envInt("SIM_FROM", 0), envInt("SIM_TO", 1), envInt("SIM_STRIDE", 1)
	deadline := time.Now().Add(time.Duration(envInt("SIM_DEADLINE_S", 3600)) * time.Second)
	maxViol := envInt("SIM_MAX_VIOL", 5)
	sum := batchSummary{Kind: "summary", Prop: sc.Prop, Scenario: sc.Name, Complete: true}
	sigs := map[string]bool{}
	states := map[uint64]bool{}
	start := time.Now()
	seenCause := map[string]int{}
	digest := uint64(14695981039346656037)
	for idx := from; idx < to; idx += stride {
		if time.Now().After(deadline) {
			sum.Complete = false
			break
		}
		o := Execute(t, sc.spec(seed, idx))
		sum.Runs++
		digest = mixs(mixs(mixu(digest, uint64(idx)), o.Verdict+o.Oracle+o.Cause), o.TraceHash)
		sum.Steps += int64(o.Steps)
		sum.Ops += int64(o.Ops)
		sum.VTimeMs += o.VTimeMs
		for _, f := range o.Faults {
			bump(&sum.Faults, f.K, f.V)
		}
		for _, p := range o.Probes {
			bump(&sum.Probes, p.K, p.V)
		}
		for _, st := range o.States {
			if len(states) < 200000 {
				states[st] = true
			}
		}
		switch o.Verdict {
		case "ok":
			sum.OK++
		case "truncated":
			sum.Truncated++
			if sum.Truncated <= 3 {
				emit(w, map[string]any{"kind": "truncated", "outcome": o})
			}
		case "error":
			sum.Errors++
			if sum.Errors <= 3 {
				emit(w, map[string]any{"kind": "error", "outcome": o})
			}
		case "violation":
			sum.Violations++
			key := o.Oracle + "|" + o.Cause
			seenCause[key]++
			if seenCause[key] <= 2 && len(seenCause) <= maxViol {
				// re-run recording the tape, so that it can be minimised
				sp := sc.spec(seed, idx)
				sp.Record = true
				o2 := Execute(t, sp)
				if o2.Verdict != "violation" || o2.Oracle != o.Oracle || o2.TraceHash != o.TraceHash {
					emit(w, map[string]any{"kind": "error", "outcome": o, "note": "violation did not reproduce identically when re-run with recording: " + o2.Verdict + " " + o2.Oracle + " " + o2.TraceHash})
					sum.Errors++
				} else {
					emit(w, map[string]any{"kind": "violation", "outcome": o2})
				}
			}
		}
		if o.Nontrivial && (o.Verdict == "ok" || o.Verdict == "violation") {
			sigs[o.SigHash] = true
		}
		if o.Sample != "" && len(sum.Samples) < 4 && (idx/stride)%7 == 0 {
			sum.Samples = append(sum.Samples, fmt.Sprintf("idx=%d seed=%d %s -> %s steps=%d vtime=%dms", idx, o.Seed, o.Sample, o.Verdict, o.Steps, o.VTimeMs))
		}
	}
	sum.Nontrivial = len(sigs)
	for k := range sigs {
		sum.Sigs = append(sum.Sigs, k)
	}
	sort.Strings(sum.Sigs)
	for k := range states {
		sum.States = append(sum.States, strconv.FormatUint(k, 16))
	}
	sort.Strings(sum.States)
	sort.Slice(sum.Faults, func(i, j int) bool { return sum.Faults[i].K < sum.Faults[j].K })
	sort.Slice(sum.Probes, func(i, j int) bool { return sum.Probes[i].K < sum.Probes[j].K })
	sum.WallS = time.Since(start).Seconds()
	if os.Getenv("SIM_DIGEST") != "" {
		emit(w, map[string]any{"kind": "digest", "digest": fmt.Sprintf("%016x/%d", digest, sum.Runs)})
	}
	emit(w, sum)
}

// ReplayFile is the on-disk form of a (minimised) violation.
type ReplayFile struct {
	Property  string   `json:"property"`
	Scenario  string   `json:"scenario"`
	Idx       int      `json:"idx"`
	Seed      uint64   `json:"seed"`
	Oracle    string   `json:"oracle"`
	Cause     string   `json:"cause"`
	Msg       string   `json:"msg"`
	Knobs     []KS     `json:"knobs"`
	Tape      []uint32 `json:"tape"`
	TraceHash string   `json:"trace_hash"`
	Trace     []string `json:"trace"`
	Minimised bool     `json:"minimised"`
	Shrink    string   `json:"shrink_stats,omitempty"`
	Repo      string   `json:"repo,omitempty"`
}

func readReplay(path string) *ReplayFile {
	b, err := os.ReadFile(path)
	if err != nil {
		fmt.Fprintln(os.Stderr, err)
		os.Exit(2)
	}
	var rf ReplayFile
	if err := json.Unmarshal(b, &rf); err != nil {
		fmt.Fprintln(os.Stderr, "replay file:", err)
		os.Exit(2)
	}
	return &rf
}

func replaySpec(sc *Scenario, rf *ReplayFile, tape []uint32) Spec {
	sp := Spec{Prop: sc.Prop, Scenario: sc.Name, Idx: rf.Idx, Seed: rf.Seed, MaxOps: sc.MaxOps, Horizon: sc.Horizon, Serial: sc.Serial, Main: sc.Run}
	if tape == nil {
		tape = []uint32{}
	}
	sp.Replay = tape
	return sp
}

// doReplay re-executes a replay file and reports whether the same violation
// with the same trace digest is reproduced.
func doReplay(t *testing.T) {
	w, done := openOut()
	defer done()
	rf := readReplay(os.Getenv("SIM_REPLAY"))
	sc := find(rf.Property, rf.Scenario)
	if sc == nil {
		fmt.Fprintln(os.Stderr, "no such scenario", rf.Property, rf.Scenario)
		os.Exit(2)
	}
	sp := replaySpec(sc, rf, rf.Tape)
	sp.Verbose = true
	o := Execute(t, sp)
	same := o.Verdict == "violation" && o.Oracle == rf.Oracle && o.Cause == rf.Cause
	emit(w, map[string]any{"kind": "replay", "reproduced": same, "same_trace": o.TraceHash == rf.TraceHash, "outcome": o})
}

// doMinimise shrinks the tape of a recorded violation: truncate the tail, zero
// blocks (ddmin halving), lower single values. A candidate is kept only if the
// same oracle fires with the same cause. 0 is benign, so a minimised tape reads
// as "a few context switches and a few faults".
func doMinimise(t *testing.T) {
	w, done := openOut()
	defer done()
	rf := readReplay(os.Getenv("SIM_REPLAY"))
	sc := find(rf.Property, rf.Scenario)
	if sc == nil {
		fmt.Fprintln(os.Stderr, "no such scenario", rf.Property, rf.Scenario)
		os.Exit(2)
	}
	budget := time.Duration(envInt("SIM_BUDGET_S", 30)) * time.Second
	deadline := time.Now().Add(budget)
	tries, kept := 0, 0
	cur := append([]uint32(nil), rf.Tape...)
	test := func(c []uint32) ([]uint32, bool) {
		tries++
		sp := replaySpec(sc, rf, c)
		sp.Record = true
		o := Execute(t, sp)
		if o.Verdict == "violation" && o.Oracle == rf.Oracle && o.Cause == rf.Cause {
			rec := o.Tape
			// drop trailing zeros: past-the-end reads are 0 anyway
			for len(rec) > 0 && rec[len(rec)-1] == 0 {
				rec = rec[:len(rec)-1]
			}
			return rec, true
		}
		return nil, false
	}
	nz := func(c []uint32) int {
		n := 0
		for _, v := range c {
			if v != 0 {
				n++
			}
		}
		return n
	}
	// normalise first (also checks that the replay reproduces at all)
	if rec, ok := test(cur); ok {
		cur = rec
	} else {
		emit(w, map[string]any{"kind": "minimised", "ok": false, "note": "recorded tape does not reproduce the violation"})
		return
	}
	orig := nz(cur)
	// 1. truncate the tail
	for lo, hi := 0, len(cur); lo < hi && time.Now().Before(deadline); {
		mid := (lo + hi) / 2
		if rec, ok := test(cur[:mid]); ok {
			cur = rec
			kept++
			if len(cur) < hi {
				hi = len(cur)
			}
			if mid < hi {
				hi = mid
			}
		} else {
			lo = mid + 1
		}
	}
	// 2. zero blocks of non-zero entries, halving the block size
	for bs := 64; bs >= 1 && time.Now().Before(deadline); bs /= 2 {
		for again := true; again && time.Now().Before(deadline); {
			again = false
			var pos []int
			for i, v := range cur {
				if v != 0 {
					pos = append(pos, i)
				}
			}
			for b := 0; b < len(pos) && time.Now().Before(deadline); b += bs {
				e := b + bs
				if e > len(pos) {
					e = len(pos)
				}
				c := append([]uint32(nil), cur...)
				for _, i := range pos[b:e] {
					if i < len(c) {
						c[i] = 0
					}
				}
				if rec, ok := test(c); ok && nz(rec) < nz(cur) {
					cur = rec
					kept++
					again = bs == 1
					break
				}
			}
		}
	}
	// 3. lower single values
	for i := 0; i < len(cur) && time.Now().Before(deadline); i++ {
		for cur[i] > 1 && time.Now().Before(deadline) {
			c := append([]uint32(nil), cur...)
			c[i] = cur[i] / 2
			rec, ok := test(c)
			if !ok || i >= len(rec) || rec[i] >= cur[i] {
				break
			}
			cur = rec
			kept++
		}
	}
	// final verbose run for the replay file
	sp := replaySpec(sc, rf, cur)
	sp.Verbose = true
	sp.Record = true
	o := Execute(t, sp)
	if o.Verdict != "violation" || o.Oracle != rf.Oracle || o.Cause != rf.Cause {
		emit(w, map[string]any{"kind": "minimised", "ok": false, "note": "minimised tape stopped reproducing"})
		return
	}
	tr := o.Trace
	if len(tr) > 400 {
		tr = append([]string{fmt.Sprintf("... %d earlier trace lines omitted ...", len(tr)-400)}, tr[len(tr)-400:]...)
	}
	out := ReplayFile{Property: rf.Property, Scenario: rf.Scenario, Idx: rf.Idx, Seed: rf.Seed, Oracle: o.Oracle, Cause: o.Cause,
		Msg: o.Msg, Knobs: o.Knobs, Tape: cur, TraceHash: o.TraceHash, Trace: tr, Minimised: true,
		Shrink: fmt.Sprintf("nonzero choices %d -> %d, tape length %d -> %d, %d candidate runs, %d accepted", orig, nz(cur), len(rf.Tape), len(cur), tries, kept),
		Repo:   rf.Repo}
	emit(w, map[string]any{"kind": "minimised", "ok": true, "replay": out})
}

// Tier returns the tier of the current batch ("quick" or "thorough").
func Tier() string {
	if v := os.Getenv("SIM_TIER"); v != "" {
		return v
	}
	return "quick"
}

// Hex is a small helper for readable byte dumps in traces.
func Hex(b []byte, max int) string {
	if len(b) <= max {
		return fmt.Sprintf("%x", b)
	}
	return fmt.Sprintf("%x..(%d)", b[:max], len(b))
}

var _ = strings.TrimSpace

// doSingle runs one idx of a scenario verbosely (debugging aid).
func doSingle(t *testing.T) {
	w, done := openOut()
	defer done()
	sc := find(os.Getenv("SIM_PROP"), os.Getenv("SIM_SCEN"))
	if sc == nil {
		fmt.Fprintln(os.Stderr, "no such scenario")
		os.Exit(2)
	}
	sp := sc.spec(seedEnv(), envInt("SIM_IDX", 0))
	sp.Verbose = true
	o := Execute(t, sp)
	emit(w, map[string]any{"kind": "single", "outcome": o})
}
