#!/bin/sh
# Runs every claimed check once (tier from $1, default quick) and prints a one-line verdict each.
cd "$(dirname "$0")"
tier=${1:-quick}
rc=0
for p in $(python3 -c "import json;print(' '.join(c['property_id'] for c in json.load(open('MANIFEST.json'))['checks']))"); do
  out=$(./check $p --tier $tier 2>&1); code=$?
  echo "$p exit=$code $(echo "$out" | grep -c '^KNOWN-FINDING') known  | $(echo "$out" | grep '^OK\|^VIOLATION\|^check:' | head -2 | tr '\n' ' ')"
  [ $code -ne 0 ] && rc=1
done
exit $rc
