#!/usr/bin/env python3
"""Regenerates MANIFEST.json from propmeta.py (claimed checks) and the fixed not-applicable list."""
import json, os, sys
sys.path.insert(0, os.path.dirname(os.path.abspath(__file__)))
from propmeta import PROPS, NOT_APPLICABLE, UNCLAIMED

checks = []
for pid in sorted(PROPS):
    m = PROPS[pid]
    checks.append({
        "property_id": pid,
        "quick_cmd": "./check %s --tier quick" % pid,
        "thorough_cmd": "./check %s --tier thorough" % pid,
        "evidence_file": "evidence/%s.json" % pid,
        "replay_cmd_template": "./check %s --replay {path}" % pid,
        "engine": "simrt",
        "level_claimed": {"category": m["level"], "text": m["level_text"], "design_ref": m.get("design_ref", "DESIGN.md section 6, " + pid)},
        "level_note": m["level_note"],
        "technique": m.get("technique", "deterministic simulation with fault injection: seeded schedule/fault search over the real code under a virtual clock"),
    })
na = [{"property_id": k, "reason": v} for k, v in sorted(NOT_APPLICABLE.items())]
na += [{"property_id": k, "reason": v} for k, v in sorted(UNCLAIMED.items()) if k not in PROPS]
man = {
    "version": 1,
    "setup_cmd": "./setup.sh",
    "hooks": {
        "guard": "verif",
        "enable": "no hooks are compiled into /repo: ./check copies gbn/ and mailbox/ from the working tree into a scratch directory, rewrites every go/select/channel/sync/time.Sleep construct into simrt scheduler calls with ./bin/instr (go/ast), drops the in-package harness files next to them and builds a test binary with go1.26.8",
        "baseline_off_cmd": "cd /repo/gbn && go test -mod=mod -vet=off -count=1 -timeout 25m ./... && cd /repo/mailbox && go test -mod=mod -vet=off -count=1 -timeout 25m ./...",
        "source_commits": [],
        "add_only": True,
    },
    "engines": [{
        "name": "simrt", "path": "simrt/ instr/ harness/ check",
        "serves_properties": sorted(PROPS),
        "kind_free_text": "deterministic simulation: cooperative scheduler + choice tape inside a testing/synctest bubble (virtual clock), source-to-source instrumentation of the real gbn and mailbox packages, simulated lossy transports / relay / adversarial byte streams, online oracles, tape minimisation and fresh-process replay",
    }],
    "checks": checks,
    "not_applicable": na,
    "notes": "Exit codes of ./check: 0 held, 1 VIOLATION, 2 not a verdict (build/instrumentation failure, harness error, >5% truncated runs). known_findings.json lists recorded (open) and repaired (fixed) defects; only open entries turn a matching violation into a KNOWN-FINDING line. ./check selftest runs the determinism self-test.",
}
with open(os.path.join(os.path.dirname(os.path.abspath(__file__)), "MANIFEST.json"), "w") as fh:
    json.dump(man, fh, indent=1)
    fh.write("\n")
print("MANIFEST.json: %d checks, %d not applicable/unclaimed" % (len(checks), len(na)))
