#!/bin/sh
# Offline setup: build the instrumenter and warm the Go build cache (normal and
# -race) for the dependency closure of the instrumented gbn and mailbox harnesses.
set -e
cd "$(dirname "$0")"
export GOFLAGS=-mod=mod GOPROXY=off GOSUMDB=off GOTOOLCHAIN=local
mkdir -p bin evidence replays
(cd instr && go1.26.8 build -o ../bin/instr .)
VERIF_WARM=1 python3 ./check WARM
