module instr

go 1.26.0

require golang.org/x/tools v0.50.0
