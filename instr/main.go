// instr rewrites every goroutine spawn, channel operation, select, close,
// time.Sleep / time.AfterFunc and sync.{Mutex,RWMutex,WaitGroup,Once} of the Go
// files in a directory (in place) into calls to the simrt scheduler runtime,
// so that the simulator - not the Go runtime - decides every interleaving.
//
// usage: instr <dir>...
//
// Anything that matters for scheduling and that it does not understand makes
// it stop with exit status 2: a tree that cannot be simulated faithfully must
// not produce a verdict.
package main

import (
	"bytes"
	"fmt"
	"go/ast"
	"go/format"
	"go/parser"
	"go/token"
	"os"
	"path/filepath"
	"sort"
	"strings"

	"golang.org/x/tools/go/ast/astutil"
)

const rt = "simrt"

var (
	fset     = token.NewFileSet()
	tmpN     int
	chanName = map[string]bool{} // identifiers / field names known to be channels
	problems []string
)

func site(n ast.Node) *ast.BasicLit {
	p := fset.Position(n.Pos())
	return &ast.BasicLit{Kind: token.STRING, Value: fmt.Sprintf("%q", fmt.Sprintf("%s:%d", filepath.Base(p.Filename), p.Line))}
}

func call(fn string, args ...ast.Expr) *ast.CallExpr {
	return &ast.CallExpr{Fun: &ast.SelectorExpr{X: ast.NewIdent(rt), Sel: ast.NewIdent(fn)}, Args: args}
}

func tmp(p string) *ast.Ident { tmpN++; return ast.NewIdent(fmt.Sprintf("_%s%d", p, tmpN)) }

func define(id *ast.Ident, e ast.Expr) ast.Stmt {
	return &ast.AssignStmt{Lhs: []ast.Expr{id}, Tok: token.DEFINE, Rhs: []ast.Expr{e}}
}

func unsupported(n ast.Node, what string) {
	p := fset.Position(n.Pos())
	problems = append(problems, fmt.Sprintf("%s:%d: unsupported construct: %s", p.Filename, p.Line, what))
}

func rewriteSelect(sel *ast.SelectStmt, label *ast.Ident) ast.Stmt {
	if len(sel.Body.List) == 0 {
		return &ast.ExprStmt{X: call("Block", site(sel))}
	}
	var pre []ast.Stmt
	var caseArgs []ast.Expr
	var clauses []ast.Stmt
	hasDefault := false
	selID := tmp("sel")
	idx := 0
	for _, c := range sel.Body.List {
		cc := c.(*ast.CommClause)
		if cc.Comm == nil {
			hasDefault = true
			clauses = append(clauses, &ast.CaseClause{List: []ast.Expr{&ast.BasicLit{Kind: token.INT, Value: "-1"}}, Body: cc.Body})
			continue
		}
		var body []ast.Stmt
		switch comm := cc.Comm.(type) {
		case *ast.SendStmt:
			id := tmp("c")
			pre = append(pre, define(id, call("Snd", comm.Chan, comm.Value)))
			caseArgs = append(caseArgs, id)
		case *ast.ExprStmt: // <-ch
			u, ok := unparen(comm.X).(*ast.UnaryExpr)
			if !ok || u.Op != token.ARROW {
				unsupported(comm, "select case expression")
				continue
			}
			id := tmp("c")
			pre = append(pre, define(id, call("R", u.X)))
			caseArgs = append(caseArgs, id)
		case *ast.AssignStmt: // x := <-ch ; x, ok := <-ch ; = variants
			u, ok := unparen(comm.Rhs[0]).(*ast.UnaryExpr)
			if !ok || u.Op != token.ARROW {
				unsupported(comm, "select case assignment")
				continue
			}
			id := tmp("c")
			pre = append(pre, define(id, call("RC", u.X)))
			caseArgs = append(caseArgs, &ast.CallExpr{Fun: &ast.SelectorExpr{X: id, Sel: ast.NewIdent("C")}})
			rhs := []ast.Expr{&ast.CallExpr{Fun: &ast.SelectorExpr{X: id, Sel: ast.NewIdent("Val")}, Args: []ast.Expr{selID}}}
			if len(comm.Lhs) == 2 {
				rhs = append(rhs, &ast.SelectorExpr{X: selID, Sel: ast.NewIdent("OK")})
			}
			body = append(body, &ast.AssignStmt{Lhs: comm.Lhs, Tok: comm.Tok, Rhs: rhs})
		default:
			unsupported(cc, fmt.Sprintf("select comm %T", comm))
			continue
		}
		body = append(body, cc.Body...)
		clauses = append(clauses, &ast.CaseClause{
			List: []ast.Expr{&ast.BasicLit{Kind: token.INT, Value: fmt.Sprint(idx)}},
			Body: body,
		})
		idx++
	}
	def := "false"
	if hasDefault {
		def = "true"
	}
	// An unreachable default arm keeps the switch a terminating statement
	// exactly when the select was one.
	clauses = append(clauses, &ast.CaseClause{List: nil, Body: []ast.Stmt{
		&ast.ExprStmt{X: &ast.CallExpr{Fun: ast.NewIdent("panic"), Args: []ast.Expr{&ast.BasicLit{Kind: token.STRING, Value: `"simrt: unreachable select arm"`}}}}}})
	args := append([]ast.Expr{site(sel), ast.NewIdent(def)}, caseArgs...)
	pre = append(pre, define(selID, call("Select", args...)))
	var sw ast.Stmt = &ast.SwitchStmt{Tag: &ast.SelectorExpr{X: selID, Sel: ast.NewIdent("I")}, Body: &ast.BlockStmt{List: clauses}}
	if label != nil {
		sw = &ast.LabeledStmt{Label: label, Stmt: sw}
	}
	return &ast.BlockStmt{List: append(pre, sw)}
}

func isConstExpr(e ast.Expr) bool {
	switch x := unparen(e).(type) {
	case *ast.BasicLit:
		return true
	case *ast.Ident:
		return x.Name == "nil" || x.Name == "true" || x.Name == "false"
	case *ast.UnaryExpr:
		return x.Op != token.ARROW && x.Op != token.AND && isConstExpr(x.X)
	}
	return false
}

func unparen(e ast.Expr) ast.Expr {
	for {
		p, ok := e.(*ast.ParenExpr)
		if !ok {
			return e
		}
		e = p.X
	}
}

func hasDirective(cg *ast.CommentGroup) bool {
	for _, c := range cg.List {
		if strings.HasPrefix(c.Text, "//go:") {
			return true
		}
	}
	return false
}

func lastName(e ast.Expr) string {
	switch x := unparen(e).(type) {
	case *ast.Ident:
		return x.Name
	case *ast.SelectorExpr:
		return x.Sel.Name
	}
	return ""
}

// collectChans records names that are syntactically known to be channels:
// struct fields, vars and params of channel type, and x := make(chan ...).
func collectChans(f *ast.File) {
	ast.Inspect(f, func(n ast.Node) bool {
		switch d := n.(type) {
		case *ast.Field:
			if _, ok := d.Type.(*ast.ChanType); ok {
				for _, nm := range d.Names {
					chanName[nm.Name] = true
				}
			}
		case *ast.ValueSpec:
			if _, ok := d.Type.(*ast.ChanType); ok {
				for _, nm := range d.Names {
					chanName[nm.Name] = true
				}
			}
			for i, v := range d.Values {
				if isMakeChan(v) && i < len(d.Names) {
					chanName[d.Names[i].Name] = true
				}
			}
		case *ast.AssignStmt:
			for i, v := range d.Rhs {
				if isMakeChan(v) && i < len(d.Lhs) {
					if nm := lastName(d.Lhs[i]); nm != "" {
						chanName[nm] = true
					}
				}
			}
		}
		return true
	})
}

func isMakeChan(e ast.Expr) bool {
	c, ok := e.(*ast.CallExpr)
	if !ok || len(c.Args) == 0 {
		return false
	}
	id, ok := c.Fun.(*ast.Ident)
	if !ok || id.Name != "make" {
		return false
	}
	_, ok = c.Args[0].(*ast.ChanType)
	return ok
}

func process(path string) ([]byte, error) {
	f, err := parser.ParseFile(fset, path, nil, parser.ParseComments)
	if err != nil {
		return nil, err
	}
	// keep only directive comments (//go:..., // +build); prose would be misplaced
	var keep []*ast.CommentGroup
	for _, cg := range f.Comments {
		for _, c := range cg.List {
			if strings.HasPrefix(c.Text, "//go:") || strings.HasPrefix(c.Text, "// +build") {
				keep = append(keep, cg)
				break
			}
		}
	}
	f.Comments = keep
	ast.Inspect(f, func(n ast.Node) bool {
		switch d := n.(type) {
		case *ast.FuncDecl:
			if d.Doc != nil && !hasDirective(d.Doc) {
				d.Doc = nil
			}
		case *ast.GenDecl:
			d.Doc = nil
		case *ast.Field:
			d.Doc, d.Comment = nil, nil
		case *ast.ValueSpec:
			d.Doc, d.Comment = nil, nil
		case *ast.TypeSpec:
			d.Doc, d.Comment = nil, nil
		}
		return true
	})
	f.Doc = nil
	used := false
	// pass 1: selects (with their labels), so that comm clauses are gone before pass 2
	astutil.Apply(f, nil, func(c *astutil.Cursor) bool {
		switch n := c.Node().(type) {
		case *ast.LabeledStmt:
			if s, ok := n.Stmt.(*ast.SelectStmt); ok {
				c.Replace(rewriteSelect(s, n.Label))
				used = true
			}
		case *ast.SelectStmt:
			if _, ok := c.Parent().(*ast.LabeledStmt); !ok {
				c.Replace(rewriteSelect(n, nil))
				used = true
			}
		}
		return true
	})
	// pass 2: everything else
	astutil.Apply(f, nil, func(c *astutil.Cursor) bool {
		switch n := c.Node().(type) {
		case *ast.GoStmt:
			callx := n.Call
			if fl, ok := callx.Fun.(*ast.FuncLit); ok && len(callx.Args) == 0 {
				c.Replace(&ast.ExprStmt{X: call("Go", site(n), fl)})
				used = true
				return true
			}
			var pre []ast.Stmt
			fn := tmp("f")
			pre = append(pre, define(fn, callx.Fun))
			var args []ast.Expr
			for _, a := range callx.Args {
				// constants need no early evaluation, and binding them to a
				// temporary would give them their default type
				if isConstExpr(a) {
					args = append(args, a)
					continue
				}
				id := tmp("a")
				pre = append(pre, define(id, a))
				args = append(args, id)
			}
			lit := &ast.FuncLit{Type: &ast.FuncType{Params: &ast.FieldList{}}, Body: &ast.BlockStmt{List: []ast.Stmt{
				&ast.ExprStmt{X: &ast.CallExpr{Fun: fn, Args: args, Ellipsis: callx.Ellipsis}}}}}
			pre = append(pre, &ast.ExprStmt{X: call("Go", site(n), lit)})
			c.Replace(&ast.BlockStmt{List: pre})
			used = true
		case *ast.SendStmt:
			c.Replace(&ast.ExprStmt{X: call("Send", site(n), n.Chan, n.Value)})
			used = true
		case *ast.UnaryExpr:
			if n.Op != token.ARROW {
				return true
			}
			fn := "Recv"
			switch p := c.Parent().(type) {
			case *ast.AssignStmt:
				if len(p.Lhs) == 2 && len(p.Rhs) == 1 {
					fn = "Recv2"
				}
			case *ast.ValueSpec:
				if len(p.Names) == 2 && len(p.Values) == 1 {
					fn = "Recv2"
				}
			}
			c.Replace(call(fn, site(n), n.X))
			used = true
		case *ast.RangeStmt:
			if nm := lastName(n.X); nm != "" && chanName[nm] {
				// for v := range ch { body }  =>  for { v, ok := simrt.Recv2(ch); if !ok { break }; body }
				if n.Value != nil {
					// two iteration variables: cannot be a channel
					return true
				}
				chID := tmp("ch")
				okID := tmp("ok")
				var lhs ast.Expr = ast.NewIdent("_")
				tok := token.DEFINE
				if n.Key != nil {
					lhs = n.Key
					tok = n.Tok
				}
				if tok == token.ASSIGN {
					unsupported(n, "range over channel assigning to an existing variable")
					return true
				}
				recv := &ast.AssignStmt{Lhs: []ast.Expr{lhs, okID}, Tok: token.DEFINE, Rhs: []ast.Expr{call("Recv2", site(n), chID)}}
				brk := &ast.IfStmt{Cond: &ast.UnaryExpr{Op: token.NOT, X: okID}, Body: &ast.BlockStmt{List: []ast.Stmt{&ast.BranchStmt{Tok: token.BREAK}}}}
				body := append([]ast.Stmt{recv, brk}, n.Body.List...)
				loop := &ast.ForStmt{Body: &ast.BlockStmt{List: body}}
				c.Replace(&ast.BlockStmt{List: []ast.Stmt{define(chID, n.X), loop}})
				used = true
			}
		case *ast.CallExpr:
			if id, ok := n.Fun.(*ast.Ident); ok && id.Name == "close" && len(n.Args) == 1 {
				c.Replace(call("Close", site(n), n.Args[0]))
				used = true
				return true
			}
			if se, ok := n.Fun.(*ast.SelectorExpr); ok {
				if x, ok := se.X.(*ast.Ident); ok {
					switch {
					case x.Name == "time" && se.Sel.Name == "Sleep" && len(n.Args) == 1:
						c.Replace(call("Sleep", site(n), n.Args[0]))
						used = true
					case x.Name == "time" && se.Sel.Name == "NewTicker" && len(n.Args) == 1 && x.Obj == nil:
						c.Replace(call("NewTicker", site(n), n.Args[0]))
						used = true
					case x.Name == "time" && se.Sel.Name == "AfterFunc" && len(n.Args) == 2:
						c.Replace(call("AfterFunc", site(n), n.Args[0], n.Args[1]))
						used = true
					case x.Name == "atomic" && len(n.Args) >= 1 && x.Obj == nil:
						n.Args[0] = call("YP", site(n), n.Args[0])
						used = true
					case x.Name == "context" && se.Sel.Name == "AfterFunc":
						unsupported(n, "context.AfterFunc")
					case x.Name == "runtime" && se.Sel.Name == "Gosched":
						c.Replace(call("Yield", site(n)))
						used = true
					}
				}
			}
		case *ast.SelectorExpr:
			if x, ok := n.X.(*ast.Ident); ok && x.Name == "sync" && x.Obj == nil {
				switch n.Sel.Name {
				case "Mutex", "RWMutex", "WaitGroup", "Once":
					c.Replace(&ast.SelectorExpr{X: ast.NewIdent(rt), Sel: ast.NewIdent(n.Sel.Name)})
					used = true
				case "Cond", "NewCond", "Map", "OnceFunc", "OnceValue", "OnceValues":
					unsupported(n, "sync."+n.Sel.Name)
				}
			}
		}
		return true
	})
	if used {
		astutil.AddImport(fset, f, rt)
	}
	for _, pkg := range []string{"sync", "time", "runtime"} {
		if !astutil.UsesImport(f, pkg) {
			astutil.DeleteImport(fset, f, pkg)
		}
	}
	var buf bytes.Buffer
	if err := format.Node(&buf, fset, f); err != nil {
		return nil, err
	}
	return buf.Bytes(), nil
}

func main() {
	if len(os.Args) < 2 {
		fmt.Fprintln(os.Stderr, "usage: instr <dir>...")
		os.Exit(2)
	}
	var files []string
	for _, dir := range os.Args[1:] {
		ents, err := os.ReadDir(dir)
		if err != nil {
			fmt.Fprintln(os.Stderr, err)
			os.Exit(2)
		}
		for _, e := range ents {
			if strings.HasSuffix(e.Name(), ".go") {
				files = append(files, filepath.Join(dir, e.Name()))
			}
		}
	}
	sort.Strings(files)
	// channel names first, over all files
	for _, p := range files {
		f, err := parser.ParseFile(fset, p, nil, 0)
		if err != nil {
			fmt.Fprintln(os.Stderr, err)
			os.Exit(2)
		}
		collectChans(f)
	}
	outs := map[string][]byte{}
	for _, p := range files {
		b, err := process(p)
		if err != nil {
			fmt.Fprintln(os.Stderr, p, err)
			os.Exit(2)
		}
		outs[p] = b
	}
	if len(problems) > 0 {
		for _, p := range problems {
			fmt.Fprintln(os.Stderr, "instr:", p)
		}
		os.Exit(2)
	}
	for p, b := range outs {
		if err := os.WriteFile(p, b, 0o644); err != nil {
			fmt.Fprintln(os.Stderr, err)
			os.Exit(2)
		}
	}
}
