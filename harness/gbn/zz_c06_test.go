package gbn

// C06 - progress: after any finite period of loss / duplication / delay the
// transport becomes reliable (latency below the resend timeout) and then every
// accepted message is delivered in bounded time unless the connection was
// closed, in which case (keepalive on) the calls of both endpoints fail in
// bounded time. No silent stall, and retransmission stops once everything is
// acknowledged.

import (
	"sync"
	"time"

	"simrt"
)

func init() {
	simrt.Register(&simrt.Scenario{
		Prop: "C06", Name: "heal", Count: tiered(3000, 320000),
		Run: func(rc *simrt.RunCtx) { c06Run(rc, false) }, MaxOps: 4 << 20, Horizon: 30 * time.Hour,
		Doc: "clean handshake, fault prefix of tape-chosen length (random loss/dup/delay, blackouts), reliable suffix; liveness oracles evaluated at a horizon after the last fault",
	})
	simrt.Register(&simrt.Scenario{
		Prop: "C06", Name: "tail-loss", Count: tiered(2000, 240000),
		Run: func(rc *simrt.RunCtx) { c06Run(rc, true) }, MaxOps: 4 << 20, Horizon: 30 * time.Hour,
		Doc: "same, but the fault prefix is exactly: the last packet(s) of a burst are lost, then the application goes silent; resend timeouts drawn below, at and above the peer's ping interval",
	})
}

// callTracker records application calls in flight on one endpoint.
type callTracker struct {
	mu       sync.Mutex
	inflight int
	failed   int // calls that returned an error
}

func (t *callTracker) begin() { t.mu.Lock(); t.inflight++; t.mu.Unlock() }
func (t *callTracker) end(err error) {
	t.mu.Lock()
	t.inflight--
	if err != nil {
		t.failed++
	}
	t.mu.Unlock()
}
func (t *callTracker) pending() int { t.mu.Lock(); defer t.mu.Unlock(); return t.inflight }

func isClosed(g *GoBackNConn) bool {
	select {
	case <-g.quit:
		return true
	default:
		return false
	}
}

type c06Dir struct {
	mu        sync.Mutex
	accepted  int
	delivered int
}

func c06Run(rc *simrt.RunCtx, tail bool) {
	n := c01Ns[rc.Pick(len(c01Ns), "knob.n")]
	if rc.Pick(3, "knob.nmode") == 2 {
		n = uint8(1 + rc.Pick(254, "knob.n2"))
	}
	// keepalive: off, symmetric, or the mailbox's asymmetric 7s/5s/3s
	var pingC, pingS, pong time.Duration
	switch rc.Pick(4, "knob.keepalive") {
	case 1:
		pingC = time.Duration(1+rc.Pick(8, "knob.ping")) * time.Second
		pingS = pingC
		pong = time.Duration(1+rc.Pick(4, "knob.pong")) * time.Second
	case 2:
		pingC, pingS, pong = 7*time.Second, 5*time.Second, 3*time.Second
	case 3:
		pingC = time.Duration(2+rc.Pick(6, "knob.pingc")) * time.Second
		pingS = time.Duration(2+rc.Pick(6, "knob.pings")) * time.Second
		pong = time.Duration(1+rc.Pick(3, "knob.pong")) * time.Second
	}
	keepalive := pingC != 0
	// resend timeout: adaptive, or static below / at / above the peer's ping interval
	tkC := tknobs{handshake: 500 * time.Millisecond, ping: pingC, pong: pong}
	tkS := tknobs{handshake: 500 * time.Millisecond, ping: pingS, pong: pong}
	static := []time.Duration{100 * time.Millisecond, 300 * time.Millisecond, time.Second, 2 * time.Second, 5 * time.Second, 6 * time.Second, 8 * time.Second}
	if rc.Pick(3, "knob.adaptive") != 0 {
		tkC.static, tkS.static = true, true
		tkC.resend = static[rc.Pick(len(static), "knob.resendc")]
		tkS.resend = static[rc.Pick(len(static), "knob.resends")]
	} else {
		tkC.resend, tkS.resend = time.Second, time.Second
	}
	rc.Knob("N", n)
	rc.Knob("client", tkC)
	rc.Knob("server", tkS)

	healLat := time.Duration(1+rc.Pick(40, "net.heallat")) * time.Millisecond
	faultLen := time.Duration(rc.Pick(40, "net.faultlen")) * time.Second
	c2s := &netCfg{latMin: time.Millisecond, latMax: 5 * time.Millisecond, healLat: healLat}
	s2c := &netCfg{latMin: time.Millisecond, latMax: 5 * time.Millisecond, healLat: healLat}
	np := newNetPair(rc, c2s, s2c)
	np.c2s.keep, np.s2c.keep = true, true
	p := startPair(rc, np, n, []Option{WithTimeoutOptions(tkC.opts()...)}, []Option{WithTimeoutOptions(tkS.opts()...)})
	if !p.waitBoth(time.Minute) {
		rc.HarnessError("fault-free handshake did not complete")
		p.closeAll()
		return
	}
	cli, e1 := p.cli.get()
	srv, e2 := p.srv.get()
	if e1 != nil || e2 != nil {
		rc.HarnessError("fault-free handshake failed: %v %v", e1, e2)
		p.closeAll()
		return
	}
	t0 := rc.Now()
	healAt := t0 + faultLen

	// ---- fault prefix -------------------------------------------------
	var fmu sync.Mutex
	tailDrops := 0
	burstLen := 1 + rc.Pick(int(n)+2, "tail.burst")
	if burstLen > 40 {
		burstLen = 40
	}
	if tail {
		// drop the last k DATA packets of the first burst (and, sometimes,
		// the ACKs of the burst), nothing else; then silence
		k := 1 + rc.Pick(2, "tail.k")
		dropAcks := rc.Pick(3, "tail.acks") == 0
		rc.Knob("tail", k)
		sent := 0
		np.c2s.filter = func(b []byte, _ time.Duration) (byte, time.Duration) {
			fmu.Lock()
			defer fmu.Unlock()
			if len(b) >= 4 && b[0] == DATA && b[3] != TRUE {
				sent++
				if sent > burstLen-k && sent <= burstLen {
					tailDrops++
					return 'x', 0
				}
			}
			return 0, 0
		}
		if dropAcks {
			acks := 0
			np.s2c.filter = func(b []byte, _ time.Duration) (byte, time.Duration) {
				fmu.Lock()
				defer fmu.Unlock()
				if len(b) >= 2 && b[0] == ACK {
					acks++
					if acks >= burstLen-k && acks <= burstLen {
						return 'x', 0
					}
				}
				return 0, 0
			}
		}
		c2s.faultsUntil, s2c.faultsUntil = healAt, healAt
	} else {
		a, b := swarmNet(rc, "net.c2s", tkC.resend), swarmNet(rc, "net.s2c", tkS.resend)
		a.healLat, b.healLat = healLat, healLat
		a.faultsUntil, b.faultsUntil = healAt, healAt
		if rc.Pick(2, "net.blackout") == 0 && faultLen > 2*time.Second {
			from := t0 + time.Duration(rc.Pick(int(faultLen/time.Second), "net.bofrom"))*time.Second
			// short blackouts are survived, long ones (beyond ping+pong) make
			// one or both endpoints give up - the other side, which may be
			// sitting on unacknowledged data, must then notice in bounded time
			w := window{from, from + time.Duration(1+rc.Pick(30, "net.bolen"))*time.Second}
			if w.to > healAt {
				w.to = healAt
			}
			// a blackout longer than ping+pong legitimately kills a
			// keepalive connection; both outcomes are covered
			a.blackouts = append(a.blackouts, w)
			if rc.Pick(2, "net.boboth") == 0 {
				b.blackouts = append(b.blackouts, w)
			}
		}
		np.c2s.mu.Lock()
		np.c2s.cfg = a
		np.c2s.mu.Unlock()
		np.s2c.mu.Lock()
		np.s2c.cfg = b
		np.s2c.mu.Unlock()
	}

	// ---- workload -------------------------------------------------------
	bidir := rc.Pick(2, "wl.bidir") == 1
	var dirA, dirB c06Dir
	var trC, trS callTracker
	stopSend := make(chan struct{})
	var wg sync.WaitGroup
	sendLoop := func(c *GoBackNConn, tr *callTracker, d *c06Dir, dir byte, bursts []int, gap time.Duration) {
		defer wg.Done()
		i := 0
		for _, bl := range bursts {
			for j := 0; j < bl; j++ {
				tr.begin()
				err := c.Send(mkMsg(dir, i, 9+i%13))
				tr.end(err)
				if err != nil {
					return
				}
				d.mu.Lock()
				d.accepted++
				d.mu.Unlock()
				i++
			}
			select {
			case <-stopSend:
				return
			case <-time.After(gap):
			}
		}
	}
	recvLoop := func(c *GoBackNConn, tr *callTracker, d *c06Dir, dir byte) {
		defer wg.Done()
		for i := 0; ; i++ {
			tr.begin()
			b, err := c.Recv()
			tr.end(err)
			if err != nil {
				return
			}
			if !eqBytes(b, mkMsg(dir, i, 9+i%13)) {
				rc.Violate("c06.prefix", "recv-mismatch", "direction %c: Recv #%d returned [%s]", dir, i, describe(b))
				return
			}
			d.mu.Lock()
			d.delivered++
			d.mu.Unlock()
			rc.Progress()
		}
	}
	mkBursts := func(label string) ([]int, time.Duration) {
		nb := 1 + rc.Pick(5, label+".bursts")
		out := make([]int, nb)
		for i := range out {
			out[i] = 1 + rc.Pick(30, label+".len")
		}
		return out, time.Duration(rc.Pick(8000, label+".gap")) * time.Millisecond
	}
	burstsA, gapA := mkBursts("wl.a")
	if tail {
		// exactly one burst of the scripted length, then silence
		burstsA = []int{burstLen}
	}
	wg.Add(2)
	go sendLoop(cli, &trC, &dirA, 'A', burstsA, gapA)
	go recvLoop(srv, &trS, &dirA, 'A')
	if bidir {
		bB, gB := mkBursts("wl.b")
		wg.Add(2)
		go sendLoop(srv, &trS, &dirB, 'B', bB, gB)
		go recvLoop(cli, &trC, &dirB, 'B')
	}
	rc.Sample("N=%d client[%v] server[%v] tail=%v faultLen=%v healLat=%v bidir=%v", n, tkC, tkS, tail, faultLen, healLat, bidir)

	// ---- observe until the horizon ------------------------------------
	// suffix length: generous multiples of every timer in play
	resendAtHeal := func() time.Duration {
		a, b := cli.timeoutManager.GetResendTimeout(), srv.timeoutManager.GetResendTimeout()
		if b > a {
			a = b
		}
		return a
	}
	closedAt := time.Duration(-1)
	var suffix time.Duration
	horizon := time.Duration(0)
	rAtHeal := time.Duration(0)
	lastThirdStart := time.Duration(0)
	deliveredAtThird := -1
	for {
		time.Sleep(250 * time.Millisecond)
		now := rc.Now()
		if closedAt < 0 && (isClosed(cli) || isClosed(srv)) {
			closedAt = now
			if !keepalive {
				who := "client"
				if isClosed(srv) {
					who = "server"
				}
				rc.Violate("c06.closed-without-keepalive", who, "keepalive is off but the %s closed the connection at %v (faults until %v)", who, now, healAt)
				break
			}
			rc.Probe("c06.closed-by-keepalive")
		}
		if horizon == 0 && now >= healAt {
			rAtHeal = resendAtHeal()
			suffix = 10 * time.Minute
			if v := 50 * (pingC + pingS + pong); v > suffix {
				suffix = v
			}
			if v := 200 * rAtHeal; v > suffix {
				suffix = v
			}
			horizon = healAt + suffix
			lastThirdStart = horizon - suffix/3
		}
		if closedAt >= 0 {
			// (d) calls of both endpoints must fail within the bound
			bound := closedAt + 2*(pingC+pingS+2*pong) + 8*resendAtHeal() + 2*time.Second + healLat*4
			if now < bound {
				continue
			}
			pc, ps := trC.pending(), trS.pending()
			if pc+ps > 0 {
				// a call that is just returning is still counted for an instant
				time.Sleep(200 * time.Millisecond)
				pc, ps = trC.pending(), trS.pending()
			}
			if pc+ps > 0 && rc.Now() >= healAt {
				rc.Violate("c06.calls-hang-after-close", "blocked-call", "connection closed at %v (keepalive %v/%v/%v); %v later %d client and %d server application calls are still blocked", closedAt, pingC, pingS, pong, now-closedAt, pc, ps)
			} else if rc.Now() >= healAt {
				// new calls must fail too
				for _, g := range []*GoBackNConn{cli, srv} {
					if g.Send([]byte("late")) == nil {
						rc.Violate("c06.calls-hang-after-close", "send-accepted-after-close", "Send succeeded on an endpoint %v after the connection closed", now-closedAt)
					}
				}
				break
			}
			if rc.Now() >= healAt+time.Hour {
				break
			}
			continue
		}
		if horizon != 0 && deliveredAtThird < 0 && now >= lastThirdStart {
			dirA.mu.Lock()
			dirB.mu.Lock()
			deliveredAtThird = dirA.delivered + dirB.delivered
			dirB.mu.Unlock()
			dirA.mu.Unlock()
		}
		if horizon != 0 && now >= horizon {
			break
		}
	}
	if closedAt < 0 && !rc.Failed() {
		// both open at the horizon
		dirA.mu.Lock()
		dirB.mu.Lock()
		acc, del := dirA.accepted+dirB.accepted, dirA.delivered+dirB.delivered
		dirB.mu.Unlock()
		dirA.mu.Unlock()
		// retransmissions / data on the wire in the last third
		dataLate, anyLate := 0, 0
		for _, l := range []*link{np.c2s, np.s2c} {
			l.mu.Lock()
			for _, ev := range l.log {
				if ev.kind == 's' && ev.t >= lastThirdStart {
					anyLate++
					if len(ev.b) >= 4 && ev.b[0] == DATA && ev.b[3] != TRUE {
						dataLate++
					}
				}
			}
			l.mu.Unlock()
		}
		cause := "resend>=peer-ping"
		if !keepalive {
			cause = "no-keepalive"
		} else if tkC.resend < pingS && tkS.resend < pingC {
			cause = "resend<peer-ping"
		}
		if !tail {
			cause = "random/" + cause
		} else {
			cause = "tail-loss/" + cause
		}
		switch {
		case del < acc && anyLate > 0 && deliveredAtThird == del:
			rc.Violate("c06.silent-stall", cause, "both ends open %v after the transport became reliable (latency %v, resend timeout %v): %d of %d accepted messages delivered, nothing delivered in the last %v although %d packets (%d data) still crossed the wire", suffix, healLat, rAtHeal, del, acc, suffix/3, anyLate, dataLate)
		case del < acc:
			rc.Violate("c06.undelivered", cause, "both ends open %v after the transport became reliable: %d of %d accepted messages delivered (wire silent=%v)", suffix, del, acc, anyLate == 0)
		case dataLate > 0:
			rc.Violate("c06.retransmits-forever", cause, "everything delivered, yet %d non-ping DATA packets were sent in the last %v of the suffix", dataLate, suffix/3)
		default:
			rc.Probe("c06.all-delivered")
		}
	}
	fmu.Lock()
	if tailDrops > 0 {
		rc.ProbeN("c06.tail-dropped", tailDrops)
	}
	fmu.Unlock()
	close(stopSend)
	p.closeAll()
	done := make(chan struct{})
	go func() { wg.Wait(); close(done) }()
	select {
	case <-done:
	case <-time.After(5 * time.Minute):
	}
	_ = simrt.Now
}
