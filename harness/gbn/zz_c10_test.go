package gbn

// C10 - the GBN handshake converges: under any loss / duplication / delay of
// handshake packets and with stale packets of an earlier connection queued in
// the transport, both ends reach the data phase with the client's window or
// the attempt fails with an error; once the transport behaves a handshake
// succeeds and data flows.

import (
	"context"
	"errors"
	"fmt"
	"sync"
	"time"

	"simrt"
)

func init() {
	simrt.Register(&simrt.Scenario{
		Prop: "C10", Name: "hs-random", Count: tiered(8000, 480000),
		Run: func(rc *simrt.RunCtx) { c10Run(rc, -1) }, MaxOps: 2 << 20, Horizon: 3 * time.Hour,
		Doc: "client and server constructors in application retry loops, random drop/dup/delay on every packet during a fault prefix, stale packets of every type pre-queued in both directions, all start orders; safety oracle on every successful constructor, progress oracle after the last fault",
	})
	simrt.Register(&simrt.Scenario{
		Prop: "C10", Name: "hs-patterns", Enumerated: true, Count: fixed(c10PatternCount()),
		Run: func(rc *simrt.RunCtx) { c10Run(rc, rc.Idx()) }, MaxOps: 2 << 20, Horizon: 3 * time.Hour,
		Doc: "enumerated: every drop / duplicate / delay-past-timeout of each of the first 6 handshake packets, all single faults and all pairs, for both start orders",
	})
	simrt.Register(&simrt.Scenario{
		Prop: "C10", Name: "client-window-values", Enumerated: true, Count: fixed(256),
		Run: c10ClientWindows, MaxOps: 1 << 20, Horizon: time.Hour,
		Doc: "enumerated: NewClientConn with every window value 0..255 against a listening server (which re-accepts after a failed attempt) on a fault-free transport: a value the protocol can represent ends in the data phase on both sides with exactly that window; any other value makes the client's constructor fail with an error - it must not sit in the handshake",
	})
	simrt.Register(&simrt.Scenario{
		Prop: "C10", Name: "hs-lost-synack", Enumerated: true, Count: fixed(16),
		Run: c10LostSynack, MaxOps: 1 << 20, Horizon: time.Hour,
		Doc: "enumerated: one attempt each, no application retry, keepalive off or on (ping 1 s / pong 1 s): the client's SYNACK - which it sends exactly once - is lost, everything else arrives; the client is in the data phase and speaks (DATA at once or two handshake timeouts later; window 1 or 20; static or adaptive resend timeout): the server's attempt must end in the data phase with the client's window (its SYNACK wait times out, the client's DATA proves the handshake), and the client's message must arrive and be answered",
	})
	simrt.Register(&simrt.Scenario{
		Prop: "C10", Name: "hs-stray", Enumerated: true, Count: fixed(len(c10StrayKinds) * 6 * 2),
		Run: c10Stray, MaxOps: 1 << 20, Horizon: time.Hour,
		Doc: "enumerated: one attempt on a fault-free transport, one stray packet of an earlier connection (ACK, NACK, DATA, ping, FIN, SYNACK, empty, garbage) delivered to - or one receive error reported to - the server or the client at each of six instants around the SYN / echo / SYNACK exchange; once the client is in the data phase (its SYNACK is out) the server's attempt must have ended too - data phase with the client's window, or an error, never silently half-finished - and a server in the data phase implies a client that is",
	})
}

// (the last kind, nil, is not a packet: the receive callback returns an error)
var c10StrayKinds = [][]byte{{ACK, 0}, {NACK, 0}, {DATA, 0, TRUE, FALSE, 's'}, {DATA, 0, TRUE, TRUE}, {FIN}, {SYNACK}, {}, {0x77, 1, 2}, nil}

func c10LostSynack(rc *simrt.RunCtx) {
	idx := rc.Idx()
	n := []uint8{1, 20}[idx%2]
	late := (idx/2)%2 == 1
	static := (idx/4)%2 == 1
	keepalive := (idx/8)%2 == 1
	hsT := 200 * time.Millisecond
	tk := tknobs{handshake: hsT}
	if static {
		tk.static = true
		tk.resend = 200 * time.Millisecond
	}
	if keepalive {
		tk.ping, tk.pong = time.Second, time.Second
	}
	lat := 10 * time.Millisecond
	c2s := &netCfg{latMin: lat, latMax: lat}
	s2c := &netCfg{latMin: lat, latMax: lat}
	np := newNetPair(rc, c2s, s2c)
	dropped := 0
	np.c2s.filter = func(b []byte, _ time.Duration) (byte, time.Duration) {
		if len(b) > 0 && b[0] == SYNACK {
			dropped++
			rc.Fault("synack-lost")
			return 'x', 0
		}
		return 0, 0
	}
	rc.Knob("case", fmt.Sprintf("N=%d data-late=%v static=%v keepalive=%v", n, late, static, keepalive))
	ctx, cancel := context.WithCancel(context.Background())
	defer cancel()
	opts := []Option{WithTimeoutOptions(tk.opts()...)}
	type res struct {
		c   *GoBackNConn
		err error
	}
	srvCh, cliCh := make(chan res, 1), make(chan res, 1)
	go func() {
		c, err := NewServerConn(ctx, np.s2c.send, np.c2s.recv, opts...)
		srvCh <- res{c, err}
	}()
	go func() {
		c, err := NewClientConn(ctx, n, np.c2s.send, np.s2c.recv, opts...)
		cliCh <- res{c, err}
	}()
	var cli res
	select {
	case cli = <-cliCh:
	case <-time.After(20 * hsT):
		rc.Violate("c10.attempt-hangs", "client/lost-synack", "the client constructor has not returned %v after the start although SYN and its echo crossed a fault-free transport", 20*hsT)
		return
	}
	if cli.err != nil || cli.c == nil {
		rc.HarnessError("client attempt failed on a transport that only loses the SYNACK: %v", cli.err)
		return
	}
	defer cli.c.Close()
	if late {
		time.Sleep(2 * hsT)
	}
	sent := make(chan error, 1)
	go func() { sent <- cli.c.Send(mkMsg('A', 0, 16)) }()
	// the server's SYNACK wait ends one handshake timeout after its echo; the
	// client's DATA (retransmitted every resend timeout, >= 1 s when adaptive)
	// reaches it after that at the latest a few resend timeouts later
	bound := 20*hsT + 10*time.Second
	var srv res
	select {
	case srv = <-srvCh:
	case <-time.After(bound):
		rc.Violate("c10.attempt-hangs", "server/lost-synack", "%v after the start: the client's only SYNACK was lost (%d dropped), the client is in the data phase and keeps sending DATA over a transport that delivers everything else, but the server constructor has neither entered the data phase nor failed", bound, dropped)
		return
	}
	if srv.err != nil || srv.c == nil {
		// an error is a legal end of the attempt; nothing more to check
		rc.Probe("c10.lost-synack-server-error")
		rc.Progress()
		return
	}
	defer srv.c.Close()
	if srv.c.cfg.n != n || srv.c.cfg.s != n+1 {
		rc.Violate("c10.window", "lost-synack/server", "server in the data phase with n=%d s=%d, the client proposed %d", srv.c.cfg.n, srv.c.cfg.s, n)
		return
	}
	// data flows, both ways
	srv.c.SetRecvTimeout(30 * time.Second)
	b, err := srv.c.Recv()
	if err != nil || len(b) == 0 || b[0] != 'A' {
		rc.Violate("c10.progress", "lost-synack/no-data", "both ends are in the data phase after the lost SYNACK, but the client's message does not arrive: %v", err)
		return
	}
	if err := srv.c.Send(mkMsg('B', 0, 16)); err != nil {
		rc.Violate("c10.progress", "lost-synack/no-data", "the server cannot answer: %v", err)
		return
	}
	cli.c.SetRecvTimeout(30 * time.Second)
	if b, err := cli.c.Recv(); err != nil || len(b) == 0 || b[0] != 'B' {
		rc.Violate("c10.progress", "lost-synack/no-data", "the server's answer does not arrive: %v", err)
		return
	}
	select {
	case err := <-sent:
		if err != nil {
			rc.Violate("c10.progress", "lost-synack/no-data", "the client's Send failed: %v", err)
			return
		}
	case <-time.After(time.Minute):
	}
	rc.Probe("c10.lost-synack-converged")
	rc.Progress()
}

func c10Stray(rc *simrt.RunCtx) {
	idx := rc.Idx()
	kind := c10StrayKinds[idx%len(c10StrayKinds)]
	at := (idx / len(c10StrayKinds)) % 6
	toServer := idx/(len(c10StrayKinds)*6) == 0
	n := uint8(7)
	hsT := 200 * time.Millisecond
	tk := tknobs{handshake: hsT, static: true, resend: 200 * time.Millisecond}
	lat := 10 * time.Millisecond
	c2s := &netCfg{latMin: lat, latMax: lat}
	s2c := &netCfg{latMin: lat, latMax: lat}
	np := newNetPair(rc, c2s, s2c)
	kindName := "transport-receive-error"
	if kind != nil {
		kindName = pktString(kind)
	}
	rc.Knob("stray", fmt.Sprintf("%s to-server=%v at=%d", kindName, toServer, at))
	ctx, cancel := context.WithCancel(context.Background())
	defer cancel()
	opts := []Option{WithTimeoutOptions(tk.opts()...)}
	type res struct {
		who string
		c   *GoBackNConn
		err error
	}
	resCh := make(chan res, 2)
	go func() {
		c, err := NewServerConn(ctx, np.s2c.send, np.c2s.recv, opts...)
		resCh <- res{"server", c, err}
	}()
	go func() {
		c, err := NewClientConn(ctx, n, np.c2s.send, np.s2c.recv, opts...)
		resCh <- res{"client", c, err}
	}()
	// SYN arrives at 10 ms, the echo at 20 ms, the SYNACK at 30 ms: the stray
	// packet is queued so that it arrives at 5, 12, 15, 22, 25 or 28 ms
	go func() {
		time.Sleep([]time.Duration{0, 2, 5, 12, 15, 18}[at] * time.Millisecond)
		l := np.s2c
		if toServer {
			l = np.c2s
		}
		if kind == nil {
			l.failRecv(errors.New("simulated transport receive failure"))
			return
		}
		l.inject(kind, 0)
		rc.Fault("stray-" + pktKind(kind))
	}()
	bound := 40 * hsT
	var got []res
	timeout := time.After(bound)
wait:
	for len(got) < 2 {
		select {
		case r := <-resCh:
			got = append(got, r)
		case <-timeout:
			break wait
		}
	}
	state := map[string]string{"client": "pending", "server": "pending"}
	for _, r := range got {
		if r.err == nil && r.c != nil {
			state[r.who] = "data-phase"
			if r.c.cfg.n != n || r.c.cfg.s != n+1 {
				rc.Violate("c10.window", "stray/"+r.who, "%s in the data phase with n=%d s=%d, the client proposed %d", r.who, r.c.cfg.n, r.c.cfg.s, n)
			}
		} else {
			state[r.who] = "error"
		}
		rc.Probe("c10.stray-" + r.who + "-" + state[r.who])
	}
	// One attempt each, nobody retries. A side that failed with an error
	// leaves the other one waiting, legitimately. But a client in the data
	// phase has sent its SYNACK over a fault-free link: the server must
	// then have finished its attempt too, one way or the other - and a
	// server in the data phase implies a client that is.
	if kind == nil {
		// the transport told one side that receiving failed: that side's
		// attempt cannot proceed and has to end with an error (or, if the
		// failure came after it was done, in the data phase) - not hang
		who := "client"
		if toServer {
			who = "server"
		}
		if state[who] == "pending" {
			rc.Violate("c10.attempt-hangs", who+"/transport-receive-error", "%v after its receive callback returned an error (position %d) the %s constructor has neither failed nor entered the data phase", bound, at, who)
		}
		rc.Progress()
		cancel()
		for _, r := range got {
			if r.c != nil {
				r.c.Close()
			}
		}
		return
	}
	switch {
	case state["client"] == "data-phase" && state["server"] == "pending":
		rc.Violate("c10.attempt-hangs", "server/stray-"+pktKind(kind), "%v after the start, on a fault-free transport with one stray %s (to the server: %v, position %d): the client is in the data phase, the server constructor has neither entered the data phase nor failed", bound, pktString(kind), toServer, at)
	case state["server"] == "data-phase" && state["client"] != "data-phase":
		rc.Violate("c10.attempt-hangs", "client/stray-"+pktKind(kind), "%v after the start, on a fault-free transport with one stray %s (to the server: %v, position %d): the server is in the data phase, the client is %s", bound, pktString(kind), toServer, at, state["client"])
	}
	rc.Progress()
	cancel()
	for _, r := range got {
		if r.c != nil {
			r.c.Close()
		}
	}
}

// handshake fault patterns: (packet index 0..5, action) singles and pairs.
type hsFault struct {
	pkt    int
	action byte // 'x' drop, '2' dup, 'd' delay past the handshake timeout
}

func c10Patterns() [][]hsFault {
	var singles []hsFault
	for p := 0; p < 6; p++ {
		for _, a := range []byte{'x', '2', 'd'} {
			singles = append(singles, hsFault{p, a})
		}
	}
	var out [][]hsFault
	out = append(out, nil)
	for _, s := range singles {
		out = append(out, []hsFault{s})
	}
	for i := range singles {
		for j := i + 1; j < len(singles); j++ {
			if singles[i].pkt != singles[j].pkt {
				out = append(out, []hsFault{singles[i], singles[j]})
			}
		}
	}
	return out
}

func c10PatternCount() int { return 2 * len(c10Patterns()) }

type c10State struct {
	mu        sync.Mutex
	synSeen   []uint8 // N values of SYNs delivered to the server in its current attempt
	staleNs   []uint8 // window values carried by injected stale SYNs that differ from the client's
	staleDone bool    // a stale SYNACK or DATA packet (one that can complete a server handshake) was queued towards the server
	staleEcho bool    // a stale SYN was queued towards the client (it can pass for the server's echo) or, with the client's own window, towards the server (it can pass for the client's SYN), or a late SYN was injected
	hsCount   int     // handshake packets offered so far (both directions)
	cliN      uint8
	gotC2S    bool
	gotS2C    bool
	bothAt    time.Duration
	srvOK     int
	cliOK     int
	srvErr    int
	cliErr    int
	dataFails int
}

func c10Run(rc *simrt.RunCtx, pattern int) {
	n := c01Ns[rc.Pick(len(c01Ns), "knob.n")]
	if rc.Pick(3, "knob.nmode") == 2 {
		n = uint8(1 + rc.Pick(254, "knob.n2"))
	}
	hsT := time.Duration(100+100*rc.Pick(5, "knob.hs")) * time.Millisecond
	tk := tknobs{handshake: hsT, ping: time.Duration(1+rc.Pick(3, "knob.ping")) * time.Second, pong: time.Second}
	if rc.Pick(2, "knob.static") == 0 {
		tk.static = true
		tk.resend = time.Duration(100+100*rc.Pick(3, "knob.resend")) * time.Millisecond
	}
	rc.Knob("N", n)
	rc.Knob("timeouts", tk)
	st := &c10State{cliN: n}

	var c2s, s2c *netCfg
	var faults []hsFault
	startOrder := 0
	healAt := time.Duration(0)
	if pattern >= 0 {
		pats := c10Patterns()
		faults = pats[pattern%len(pats)]
		startOrder = pattern / len(pats)
		c2s = &netCfg{latMin: time.Millisecond, latMax: 5 * time.Millisecond}
		s2c = &netCfg{latMin: time.Millisecond, latMax: 5 * time.Millisecond}
		rc.Knob("pattern", fmt.Sprint(faults))
	} else {
		healAt = time.Duration(1+rc.Pick(20, "net.heal")) * time.Second
		c2s, s2c = swarmNet(rc, "net.c2s", hsT), swarmNet(rc, "net.s2c", hsT)
		c2s.faultsUntil, s2c.faultsUntil = healAt, healAt
		c2s.healLat, s2c.healLat = 2*time.Millisecond, 2*time.Millisecond
		startOrder = rc.Pick(3, "wl.startorder")
	}
	np := newNetPair(rc, c2s, s2c)
	// scripted handshake faults
	script := func(b []byte, _ time.Duration) (byte, time.Duration) {
		if len(b) == 0 || (b[0] != SYN && b[0] != SYNACK) {
			return 0, 0
		}
		st.mu.Lock()
		k := st.hsCount
		st.hsCount++
		st.mu.Unlock()
		for _, f := range faults {
			if f.pkt == k {
				switch f.action {
				case 'x':
					return 'x', 0
				case '2':
					return '2', 0
				case 'd':
					return 0, hsT * 3
				}
			}
		}
		return 0, 0
	}
	if pattern >= 0 {
		np.c2s.filter, np.s2c.filter = script, script
	}
	np.c2s.tap = func(b []byte) {
		if len(b) >= 2 && b[0] == SYN {
			st.mu.Lock()
			st.synSeen = append(st.synSeen, b[1])
			st.mu.Unlock()
		}
	}
	// wire-level invariant of the client: it acknowledges a handshake (sends
	// SYNACK) only after an echo of its own window; the most recent SYN
	// delivered to it tells which echo a SYNACK answers
	echoOwn, echoForeign := false, -1
	np.s2c.tap = func(b []byte) {
		if len(b) >= 2 && b[0] == SYN {
			st.mu.Lock()
			if b[1] == n {
				echoOwn = true
			} else {
				echoForeign = int(b[1])
			}
			st.mu.Unlock()
		}
	}
	np.c2s.onSend = func(b []byte) {
		if len(b) >= 1 && b[0] == SYNACK {
			st.mu.Lock()
			own, foreign := echoOwn, echoForeign
			echoOwn, echoForeign = false, -1
			st.mu.Unlock()
			if !own && foreign >= 0 {
				rc.Violate("c10.window", "client-acknowledged-foreign-window", "the client (window %d) sent SYNACK although the only SYN echoed to it in this attempt carried N=%d: the server may now enter the data phase with a window the client did not propose", n, foreign)
			}
		}
	}
	// stale packets of an earlier connection
	staleDrained := time.Duration(0)
	if pattern < 0 && rc.Pick(3, "stale.on") != 0 {
		synOnly := rc.Pick(4, "stale.syn-only") == 1
		mk := func(l *link, dirName string) {
			k := rc.Pick(6, "stale.count."+dirName)
			if synOnly {
				// only SYNs of an earlier connection with another valid
				// window, towards the server
				if dirName != "c2s" {
					return
				}
				k = 1 + rc.Pick(3, "stale.syn-only-count")
				for i := 0; i < k; i++ {
					staleN := uint8(1 + rc.Pick(254, "stale.nval"))
					if staleN == n {
						// (a stale SYN with the client's own window could pass
						// for the client's SYN; not in this mode)
						staleN = n%254 + 1
					}
					st.mu.Lock()
					st.staleNs = append(st.staleNs, staleN)
					st.mu.Unlock()
					l.inject([]byte{SYN, staleN}, time.Duration(rc.Pick(50, "stale.lat"))*time.Millisecond)
					rc.Fault("stale-c2s-SYN-only")
				}
				return
			}
			for i := 0; i < k; i++ {
				var b []byte
				switch rc.Pick(7, "stale.kind") {
				case 0:
					staleN := n
					switch rc.Pick(4, "stale.n") {
					case 1:
						staleN = uint8(1 + rc.Pick(254, "stale.nval"))
					case 2:
						staleN = 255 // unrepresentable: s = n+1 does not fit
					case 3:
						staleN = 0
					}
					b = []byte{SYN, staleN}
					if dirName == "s2c" || staleN == n {
						// towards the client it can pass for the server's
						// echo; towards the server, with the client's own
						// window, for the client's SYN
						st.mu.Lock()
						st.staleEcho = true
						st.mu.Unlock()
					}
					if staleN != n {
						st.mu.Lock()
						st.staleNs = append(st.staleNs, staleN)
						st.mu.Unlock()
					}
				case 1:
					b = []byte{SYNACK}
					if dirName == "c2s" {
						st.mu.Lock()
						st.staleDone = true
						st.mu.Unlock()
					}
				case 2:
					b = []byte{ACK, byte(rc.Pick(int(n)+1, "stale.seq"))}
				case 3:
					b = []byte{NACK, byte(rc.Pick(int(n)+1, "stale.seq"))}
				case 4:
					b = append([]byte{DATA, byte(rc.Pick(int(n)+1, "stale.seq")), TRUE, FALSE}, []byte("stale")...)
				case 5:
					b = []byte{DATA, byte(rc.Pick(int(n)+1, "stale.seq")), TRUE, TRUE}
				case 6:
					b = []byte{FIN}
				}
				if b[0] == DATA && dirName == "c2s" {
					st.mu.Lock()
					st.staleDone = true
					st.mu.Unlock()
				}
				l.inject(b, time.Duration(rc.Pick(50, "stale.lat"))*time.Millisecond)
				rc.Fault("stale-" + dirName + "-" + pktKind(b))
			}
		}
		mk(np.c2s, "c2s")
		mk(np.s2c, "s2c")
		staleDrained = 100 * time.Millisecond
		if !synOnly && rc.Pick(2, "stale.late") == 1 {
			// ... and one that lands inside the handshake (between the
			// echoed SYN and the SYNACK)
			// (only the client's own proposal - a duplicate of its SYN - or a
			// value no client can propose: a *different valid* window in the
			// middle of the handshake is forgery, not staleness, and outside
			// this property)
			lateN := []uint8{n, 0, 255}[rc.Pick(3, "stale.laten")]
			at := time.Duration(rc.Pick(30, "stale.lateat")) * time.Millisecond
			go func() {
				// injected later, so that it is queued behind the client's
				// own SYN (the links are FIFO)
				time.Sleep(at)
				np.c2s.inject([]byte{SYN, lateN}, 0)
			}()
			rc.Fault("stale-c2s-late-SYN")
			st.mu.Lock()
			st.staleEcho = true
			st.mu.Unlock()
			if at+50*time.Millisecond > staleDrained {
				staleDrained = at + 50*time.Millisecond
			}
		}
	}

	ctx, cancel := context.WithCancel(context.Background())
	opts := []Option{WithTimeoutOptions(tk.opts()...)}
	stop := make(chan struct{})
	var wg sync.WaitGroup

	// server application: accept, echo, re-accept on failure
	serverLoop := func() {
		defer wg.Done()
		for attempt := 0; ; attempt++ {
			select {
			case <-stop:
				return
			default:
			}
			st.mu.Lock()
			st.synSeen = st.synSeen[:0]
			st.mu.Unlock()
			c, err := NewServerConn(ctx, np.s2c.send, np.c2s.recv, opts...)
			if err != nil || c == nil {
				st.mu.Lock()
				st.srvErr++
				st.mu.Unlock()
				select {
				case <-stop:
					return
				case <-time.After(50 * time.Millisecond):
				}
				continue
			}
			select {
			case <-stop:
				// the harness cancelled the context: the constructor
				// returns without a handshake, nothing to judge
				c.Close()
				return
			default:
			}
			// safety: the window the server enters the data phase with
			sn := c.cfg.n
			st.mu.Lock()
			st.srvOK++
			seen := append([]uint8(nil), st.synSeen...)
			st.mu.Unlock()
			okN := false
			for _, v := range seen {
				if v == sn {
					okN = true
				}
			}
			if sn < 1 || sn > 254 || c.cfg.s != sn+1 {
				rc.Violate("c10.window", "unrepresentable", "server entered the data phase with n=%d s=%d", sn, c.cfg.s)
			} else if !okN {
				rc.Violate("c10.window", "not-proposed", "server entered the data phase with n=%d, SYNs delivered to it in this attempt proposed %v", sn, seen)
			}
			c.SetRecvTimeout(20 * time.Second)
			for {
				b, err := c.Recv()
				if err != nil {
					break
				}
				if len(b) > 0 && b[0] == 'A' {
					st.mu.Lock()
					st.gotC2S = true
					st.mu.Unlock()
					if c.cfg.n != n {
						cause := "data-flows-with-other-window"
						st.mu.Lock()
						for _, v := range st.staleNs {
							if v == c.cfg.n && (st.staleDone || st.staleEcho) {
								// the server adopted the window of a stale SYN of
								// an earlier connection, confirmed by a stale
								// SYNACK/DATA or with a stale SYN passing for the
								// server's echo (recorded finding)
								cause += "/adopted-stale-syn"
								break
							}
							if v == c.cfg.n {
								// nothing stale could have confirmed it, have
								// passed for the server's echo or for the client's
								// SYN: the only SYNACK is
								// the client's, sent after the server had echoed
								// the client's own window - so the server saw the
								// client's SYN after the stale one (the links are
								// FIFO) and still kept the older window
								cause += "/kept-stale-syn-over-the-clients"
								break
							}
						}
						st.mu.Unlock()
						rc.Violate("c10.window", cause, "client data delivered on a server using n=%d, client proposed %d", c.cfg.n, n)
					}
					if c.Send(mkMsg('B', 0, 16)) != nil {
						break
					}
				}
			}
			c.Close()
			st.mu.Lock()
			st.dataFails++
			st.mu.Unlock()
		}
	}
	clientLoop := func() {
		defer wg.Done()
		for attempt := 0; ; attempt++ {
			select {
			case <-stop:
				return
			default:
			}
			st.mu.Lock()
			echoOwn, echoForeign = false, -1
			st.mu.Unlock()
			c, err := NewClientConn(ctx, n, np.c2s.send, np.s2c.recv, opts...)
			if err != nil || c == nil {
				st.mu.Lock()
				st.cliErr++
				st.mu.Unlock()
				select {
				case <-stop:
					return
				case <-time.After(50 * time.Millisecond):
				}
				continue
			}
			select {
			case <-stop:
				c.Close()
				return
			default:
			}
			st.mu.Lock()
			st.cliOK++
			st.mu.Unlock()
			if c.cfg.n != n || c.cfg.s != n+1 {
				rc.Violate("c10.window", "client-window-changed", "client in data phase with n=%d s=%d, proposed %d", c.cfg.n, c.cfg.s, n)
			}
			c.SetRecvTimeout(20 * time.Second)
			// the client starts sending as soon as its constructor returns
			for i := 0; ; i++ {
				if c.Send(mkMsg('A', i, 16)) != nil {
					break
				}
				b, err := c.Recv()
				if err != nil {
					break
				}
				if len(b) > 0 && b[0] == 'B' {
					st.mu.Lock()
					st.gotS2C = true
					st.bothAt = rc.Now()
					st.mu.Unlock()
					rc.Progress()
				}
				select {
				case <-stop:
					c.Close()
					return
				case <-time.After(500 * time.Millisecond):
				}
			}
			c.Close()
		}
	}
	wg.Add(2)
	switch startOrder {
	case 0:
		go serverLoop()
		go clientLoop()
	case 1:
		go clientLoop()
		go serverLoop()
	default:
		// client first, server late (after at least one SYN resend)
		go clientLoop()
		time.Sleep(hsT + time.Duration(rc.Pick(800, "wl.latestart"))*time.Millisecond)
		go serverLoop()
	}

	// progress: after the last fault (and with the stale prefix drained) a
	// handshake must succeed and a message must cross in each direction.
	lastFault := healAt
	if staleDrained > lastFault {
		lastFault = staleDrained
	}
	if pattern >= 0 {
		lastFault = 4 * hsT // the scripted faults touch only the first six handshake packets
	}
	bound := lastFault + 30*hsT*4 + 4*(tk.ping+tk.pong) + 5*time.Minute
	tick := time.NewTicker(500 * time.Millisecond)
	defer tick.Stop()
	okAt := time.Duration(-1)
	armed := false
	for rc.Now() < bound && !rc.Failed() {
		<-tick.C
		st.mu.Lock()
		if !armed && rc.Now() >= lastFault {
			// only data that crosses after the last fault counts
			armed = true
			if st.gotC2S && st.gotS2C {
				rc.Probe("c10.connected-during-faults")
			}
			st.gotC2S, st.gotS2C = false, false
		}
		if armed && st.gotC2S && st.gotS2C {
			okAt = st.bothAt
		}
		st.mu.Unlock()
		if okAt >= 0 {
			break
		}
	}
	st.mu.Lock()
	rc.Sample("N=%d hs=%v pattern=%v heal=%v srvOK=%d cliOK=%d srvErr=%d cliErr=%d dataFails=%d connectedAt=%v", n, hsT, faults, healAt, st.srvOK, st.cliOK, st.srvErr, st.cliErr, st.dataFails, okAt)
	if st.srvErr+st.cliErr > 0 {
		rc.Probe("c10.attempt-failed-with-error")
	}
	if st.dataFails > 0 {
		rc.Probe("c10.data-phase-failed-visibly")
	}
	if st.srvOK+st.cliOK > 2 {
		rc.Probe("c10.reconnected")
	}
	st.mu.Unlock()
	if okAt < 0 && !rc.Failed() {
		rc.Violate("c10.progress", "no-data-after-heal", "transport reliable since %v (stale prefix drained) but %v later no attempt has carried a message in each direction (N=%d, handshake timeout %v)", lastFault, rc.Now()-lastFault, n, hsT)
	}
	close(stop)
	cancel()
	done := make(chan struct{})
	go func() { wg.Wait(); close(done) }()
	select {
	case <-done:
	case <-time.After(2 * time.Minute):
		rc.Probe("c10.loops-did-not-stop")
	}
}

func pktKind(b []byte) string {
	if len(b) == 0 {
		return "empty"
	}
	switch b[0] {
	case SYN:
		return "SYN"
	case SYNACK:
		return "SYNACK"
	case ACK:
		return "ACK"
	case NACK:
		return "NACK"
	case FIN:
		return "FIN"
	case DATA:
		if len(b) >= 4 && b[3] == TRUE {
			return "PING"
		}
		return "DATA"
	}
	return "RAW"
}

// c10ClientWindows: every value of the client's window parameter.
func c10ClientWindows(rc *simrt.RunCtx) {
	n := uint8(rc.Idx() % 256)
	hsT := 200 * time.Millisecond
	tk := tknobs{handshake: hsT, static: true, resend: 200 * time.Millisecond}
	lat := 5 * time.Millisecond
	np := newNetPair(rc, &netCfg{latMin: lat, latMax: lat}, &netCfg{latMin: lat, latMax: lat})
	ctx, cancel := context.WithCancel(context.Background())
	defer cancel()
	opts := []Option{WithTimeoutOptions(tk.opts()...)}
	rc.Knob("N", n)
	srvCh := make(chan *GoBackNConn, 1)
	go func() {
		// a listener: it accepts again after a failed attempt
		for ctx.Err() == nil {
			c, err := NewServerConn(ctx, np.s2c.send, np.c2s.recv, opts...)
			if err == nil && c != nil && ctx.Err() == nil {
				srvCh <- c
				return
			}
			if c != nil {
				c.Close()
			}
			select {
			case <-ctx.Done():
				return
			case <-time.After(20 * time.Millisecond):
			}
		}
	}()
	type cres struct {
		c   *GoBackNConn
		err error
	}
	cliCh := make(chan cres, 1)
	go func() {
		c, err := NewClientConn(ctx, n, np.c2s.send, np.s2c.recv, opts...)
		cliCh <- cres{c, err}
	}()
	bound := 40 * hsT
	valid := n >= 1 && n <= 254
	select {
	case r := <-cliCh:
		switch {
		case valid && (r.err != nil || r.c == nil):
			rc.Violate("c10.progress", "valid-window-refused", "NewClientConn with window %d failed on a fault-free transport: %v", n, r.err)
		case !valid && r.err == nil:
			rc.Violate("c10.window", "unrepresentable", "NewClientConn accepted window %d", n)
		case valid:
			select {
			case sc := <-srvCh:
				if sc.cfg.n != n || sc.cfg.s != n+1 || r.c.cfg.n != n {
					rc.Violate("c10.window", "not-proposed", "client proposed %d: client runs with n=%d, server with n=%d s=%d", n, r.c.cfg.n, sc.cfg.n, sc.cfg.s)
				}
				sc.Close()
			case <-time.After(bound):
				rc.Violate("c10.attempt-hangs", "server/valid-window", "client with window %d is in the data phase, the server has not finished its attempt", n)
			}
		default:
			rc.Probe("c10.client-refused-invalid-window")
		}
		if r.c != nil {
			r.c.Close()
		}
	case <-time.After(bound):
		rc.Violate("c10.attempt-hangs", fmt.Sprintf("client/window-%d", n), "%v after NewClientConn was called with window %d on a fault-free transport it has neither failed nor reached the data phase (the server refuses the SYN each time and listens again)", bound, n)
	}
	rc.Progress()
	cancel()
}
