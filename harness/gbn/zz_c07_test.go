package gbn

// C07 (GBN part) - no bytes delivered by the untrusted relay can crash an
// endpoint or push its window bookkeeping outside the valid range.

import (
	"context"
	"fmt"
	"reflect"
	"sync"
	"time"

	"simrt"
)

func init() {
	simrt.Register(&simrt.Scenario{
		Prop: "C07", Name: "gbn-window-forgery", Enumerated: true, Count: fixed(len(c09S)),
		Run: c07Window, MaxOps: 1 << 40, Serial: true,
		Doc: "for every sequence space s in 2..40 and 64, 65, 128, 129, 200, 254, 255: every window state (base, top) as the first pass through the sequence numbers leaves it (retransmission buffer filled only for the packets in flight), every forged ACK and NACK value 0..255: afterwards the window lies inside the one that was in flight and every slot a retransmission would read is filled (no nil packet for Serialize)",
	})
	simrt.Register(&simrt.Scenario{
		Prop: "C07", Name: "gbn-nonfinal-flood", Enumerated: true, Count: fixed(4),
		Run: c07Flood, MaxOps: 1 << 22, Horizon: time.Hour,
		Doc: "the relay delivers, in step with the endpoint's expected sequence number, DATA packets whose final-chunk flag is not set (the honest peer - the mailbox layer never enables splitting - sends none): 8 MiB in all, to the server or the client, with and without keepalive; the endpoint must ignore them or fail the connection, not buffer them without limit for a message that never ends",
	})
	simrt.Register(&simrt.Scenario{
		Prop: "C07", Name: "gbn-deserialize", Enumerated: true, Count: fixed(257),
		Run: c07Deserialize, MaxOps: 1 << 40, Serial: true,
		Doc: "gbn.Deserialize on every byte string of length 0..3 and, per first byte, every 4-byte string (quick tier: 4-byte strings only for first bytes that are a packet type, 0x00 or 0xFF); successful results are re-serialized and deserialized again",
	})
	simrt.Register(&simrt.Scenario{
		Prop: "C07", Name: "gbn-scripted-syn", Enumerated: true, Count: fixed(256 * 3),
		Run: c07ScriptedSYN, MaxOps: 1 << 20, Horizon: time.Hour,
		Doc: "a scripted (conforming) client proposes each of the 256 window values to a real server, completes the handshake and exchanges data in both directions; each value once with a plain handshake, once with a restarted one, and once as a second SYN that replaces a valid first proposal while the server waits for the SYNACK",
	})
	simrt.Register(&simrt.Scenario{
		Prop: "C07", Name: "gbn-inject-live", Count: tiered(6000, 800000),
		Run: c07Inject, MaxOps: 2 << 20, Horizon: 2 * time.Hour,
		Doc: "real client and server; garbage, truncated/extended/mutated packets and every ACK/NACK/SYN value injected toward either endpoint in every phase (waiting for SYN, waiting for SYNACK, data phase idle, k outstanding, mid-resend); afterwards a conforming exchange must still work or fail with errors",
	})
}

func c07Deserialize(rc *simrt.RunCtx) {
	idx := rc.Idx()
	cases := 0
	try := func(b []byte) {
		cases++
		m, err := Deserialize(b)
		if err != nil || m == nil {
			return
		}
		out, err := m.Serialize()
		if err != nil {
			return
		}
		m2, err := Deserialize(out)
		if err != nil || m2 == nil {
			rc.Violate("c07.deserialize", "reserialized-does-not-parse", "Deserialize(%x) succeeded but its re-serialization %x does not deserialize: %v", b, out, err)
		}
	}
	if idx == 256 {
		try([]byte{})
		try(nil)
		rc.Sample("the empty string")
	} else {
		first := byte(idx)
		full := first == 0 || first == 0xff || (first >= SYN && first <= SYNACK)
		if rcTier() == "thorough" {
			full = true
		}
		buf := make([]byte, 4)
		buf[0] = first
		try(buf[:1])
		for a := 0; a < 256; a++ {
			buf[1] = byte(a)
			try(buf[:2])
			for b := 0; b < 256; b++ {
				buf[2] = byte(b)
				try(buf[:3])
				if full {
					for c := 0; c < 256; c++ {
						buf[3] = byte(c)
						try(buf[:4])
					}
				}
			}
		}
		rc.Sample("all strings of length 1..%d starting with 0x%02x", map[bool]int{false: 3, true: 4}[full], first)
	}
	rc.ProbeN("c07.deserialize-cases", cases)
	rc.Progress()
	rc.Fault(fmt.Sprintf("enumerated-first-byte=%d", idx))
}

// whitebox invariants of an endpoint that is (or claims to be) in the data phase
func c07Invariants(rc *simrt.RunCtx, who string, g *GoBackNConn) {
	if g == nil {
		return
	}
	q := g.sendQueue
	q.baseMtx.RLock()
	base := q.sequenceBase
	q.baseMtx.RUnlock()
	q.topMtx.RLock()
	top := q.sequenceTop
	q.topMtx.RUnlock()
	n, s := g.cfg.n, g.cfg.s
	switch {
	case s == 0 || s != n+1 || n < 1:
		rc.Violate("c07.window", "bad-sequence-space", "%s is in the data phase with window n=%d and sequence space s=%d", who, n, s)
	case q.cfg.s != s:
		rc.Violate("c07.window", "queue-space-mismatch", "%s: queue uses s=%d, connection s=%d", who, q.cfg.s, s)
	case base >= s || top >= s:
		rc.Violate("c07.window", "index-outside-space", "%s: base=%d top=%d outside the sequence space s=%d after relay-supplied input", who, base, top, s)
	case q.size() > n:
		rc.Violate("c07.window", "size>n", "%s: %d packets in the window, n=%d", who, q.size(), n)
	case g.recvSeq >= s:
		rc.Violate("c07.window", "recvseq-outside-space", "%s: recvSeq=%d outside the sequence space s=%d", who, g.recvSeq, s)
	}
}

func c07ScriptedSYN(rc *simrt.RunCtx) {
	v := uint8(rc.Idx() % 256)
	restart := rc.Idx()/256 == 1
	second := rc.Idx()/256 == 2
	rc.Knob("N", v)
	rc.Knob("restart", restart)
	rc.Knob("second-syn", second)
	rc.Sample("scripted client proposes N=%d (restarted handshake: %v)", v, restart)
	cfg := &netCfg{latMin: time.Millisecond, latMax: time.Millisecond}
	np := newNetPair(rc, cfg, &netCfg{latMin: time.Millisecond, latMax: time.Millisecond})
	ctx, cancel := context.WithCancel(context.Background())
	defer cancel()
	tk := tknobs{handshake: 100 * time.Millisecond, static: true, resend: 100 * time.Millisecond}
	var srv *GoBackNConn
	var serr error
	sdone := make(chan struct{})
	go func() {
		srv, serr = NewServerConn(ctx, np.s2c.send, np.c2s.recv, WithTimeoutOptions(tk.opts()...))
		close(sdone)
	}()
	send := func(b []byte) { np.c2s.send(ctx, b) }
	recvT := func(d time.Duration) []byte {
		c, cc := context.WithTimeout(ctx, d)
		defer cc()
		b, _ := np.s2c.recv(c)
		return b
	}
	if second {
		// a valid proposal first; v arrives as a second SYN during the
		// server's wait for the SYNACK and replaces it
		send([]byte{SYN, DefaultN})
		recvT(time.Second)
	}
	send([]byte{SYN, v})
	echo := recvT(time.Second)
	if restart {
		// let the server time out on the SYNACK and start over, then
		// complete with SYNACK / DATA as a restarted handshake allows
		time.Sleep(150 * time.Millisecond)
	}
	if len(echo) >= 2 && echo[0] == SYN && echo[1] != v {
		rc.Violate("c07.syn-echo", "echo-differs", "server echoed SYN N=%d for a proposal of N=%d", echo[1], v)
	}
	send([]byte{SYNACK})
	select {
	case <-sdone:
	case <-time.After(5 * time.Second):
	}
	select {
	case <-sdone:
	default:
		rc.Probe("c07.server-still-in-handshake")
		cancel()
		<-sdone
		if srv != nil {
			srv.Close()
		}
		rc.Progress()
		rc.Fault(fmt.Sprintf("syn-%d-%v-%v", v, restart, second))
		return
	}
	if serr != nil || srv == nil {
		rc.Probe("c07.server-refused-window")
		rc.Progress()
		rc.Fault(fmt.Sprintf("syn-%d-%v-%v", v, restart, second))
		return
	}
	c07Invariants(rc, "server", srv)
	if srv.cfg.n != v && !rc.Failed() {
		rc.Violate("c07.window", "window-not-proposed", "server entered the data phase with n=%d, the scripted client proposed %d", srv.cfg.n, v)
	}
	// data in both directions through the scripted peer
	s := int(v) + 1
	var got [][]byte
	var mu sync.Mutex
	rdone := make(chan struct{})
	go func() {
		defer close(rdone)
		for i := 0; i < 5; i++ {
			b, err := srv.Recv()
			if err != nil {
				return
			}
			mu.Lock()
			got = append(got, b)
			mu.Unlock()
			if srv.Send(b) != nil {
				return
			}
		}
	}()
	acks, echoed := 0, 0
	for i := 0; i < 5 && !rc.Failed(); i++ {
		seq := byte(i % s)
		send(append([]byte{DATA, seq, TRUE, FALSE}, mkMsg('A', i, 12)...))
		deadline := rc.Now() + 2*time.Second
		gotAck, gotEcho := false, false
		for rc.Now() < deadline && !(gotAck && gotEcho) {
			b := recvT(500 * time.Millisecond)
			if len(b) >= 2 && b[0] == ACK && b[1] == seq {
				gotAck = true
				acks++
			}
			if len(b) >= 4 && b[0] == DATA && b[3] != TRUE {
				gotEcho = true
				echoed++
				send([]byte{ACK, b[1]})
			}
		}
	}
	c07Invariants(rc, "server", srv)
	send([]byte{FIN})
	select {
	case <-rdone:
	case <-time.After(5 * time.Second):
	}
	if acks == 5 && echoed == 5 {
		rc.Probe("c07.scripted-exchange-complete")
	}
	srv.Close()
	rc.Progress()
	rc.Fault(fmt.Sprintf("syn-%d-%v-%v", v, restart, second))
}

// c07Garbage draws one relay-supplied byte string.
func c07Garbage(rc *simrt.RunCtx, n uint8, captured [][]byte) []byte {
	switch rc.Pick(9, "inj.kind") {
	case 0: // every type byte x lengths 0..6
		l := rc.Pick(7, "inj.len")
		b := make([]byte, l)
		for i := range b {
			b[i] = byte(rc.Pick(256, "inj.byte"))
		}
		if l > 0 {
			b[0] = byte(rc.Pick(9, "inj.type"))
		}
		return b
	case 1:
		return []byte{ACK, byte(rc.Pick(256, "inj.seq"))}
	case 2:
		return []byte{NACK, byte(rc.Pick(256, "inj.seq"))}
	case 3:
		return []byte{SYN, byte(rc.Pick(256, "inj.n"))}
	case 4:
		return []byte{SYNACK}
	case 5: // DATA with arbitrary header bytes
		return append([]byte{DATA, byte(rc.Pick(256, "inj.seq")), byte(rc.Pick(3, "inj.fin")), byte(rc.Pick(3, "inj.ping"))}, []byte("inj")...)
	case 6: // truncation / extension / mutation of captured valid traffic
		if len(captured) == 0 {
			return []byte{DATA}
		}
		b := append([]byte(nil), captured[rc.Pick(len(captured), "inj.cap")]...)
		switch rc.Pick(3, "inj.mut") {
		case 0:
			b = b[:rc.Pick(len(b)+1, "inj.trunc")]
		case 1:
			b = append(b, byte(rc.Pick(256, "inj.ext")), byte(rc.Pick(256, "inj.ext")))
		case 2:
			if len(b) > 0 {
				b[rc.Pick(len(b), "inj.pos")] ^= byte(1 << rc.Pick(8, "inj.bit"))
			}
		}
		return b
	case 7: // longer random string
		b := make([]byte, 5+rc.Pick(60, "inj.long"))
		for i := range b {
			b[i] = byte(rc.Pick(256, "inj.byte"))
		}
		return b
	}
	return []byte{}
}

func c07Inject(rc *simrt.RunCtx) {
	ns := []uint8{1, 2, 3, DefaultN, 254}
	n := ns[rc.Pick(len(ns), "knob.n")]
	tk := tknobs{handshake: 200 * time.Millisecond, static: true, resend: 200 * time.Millisecond}
	if rc.Pick(3, "knob.keepalive") == 2 {
		tk.ping, tk.pong = 2*time.Second, 2*time.Second
	}
	phases := []string{"handshake", "idle", "outstanding", "resend"}
	phase := phases[rc.Pick(len(phases), "inj.phase")]
	target := "client"
	if rc.Pick(2, "inj.target") == 1 {
		target = "server"
	}
	rc.Knob("N", n)
	rc.Knob("phase", phase)
	rc.Knob("target", target)
	lat := &netCfg{latMin: time.Millisecond, latMax: 3 * time.Millisecond}
	np := newNetPair(rc, lat, &netCfg{latMin: time.Millisecond, latMax: 3 * time.Millisecond})
	np.c2s.keep, np.s2c.keep = true, true
	tl := np.s2c // link that delivers to the client
	if target == "server" {
		tl = np.c2s
	}
	injected := 0
	injectSome := func(k int) {
		var captured [][]byte
		for _, l := range []*link{np.c2s, np.s2c} {
			l.mu.Lock()
			for _, ev := range l.log {
				if ev.kind == 's' && len(captured) < 32 {
					captured = append(captured, ev.b)
				}
			}
			l.mu.Unlock()
		}
		for i := 0; i < k; i++ {
			b := c07Garbage(rc, n, captured)
			tl.inject(b, time.Duration(rc.Pick(5, "inj.lat"))*time.Millisecond)
			simrt.NoteSig("inject->%s %s", target, simrt.Hex(b, 8))
			injected++
			rc.Fault("inject-" + phase)
		}
	}
	opts := []Option{WithTimeoutOptions(tk.opts()...)}
	if phase == "handshake" {
		// garbage ahead of and in between the handshake packets
		injectSome(1 + rc.Pick(4, "inj.count"))
	}
	p := startPair(rc, np, n, opts, opts)
	if phase == "handshake" {
		time.Sleep(time.Duration(rc.Pick(6, "inj.at")) * time.Millisecond)
		injectSome(1 + rc.Pick(4, "inj.count2"))
	}
	if !p.waitBoth(30 * time.Second) {
		// a handshake may legitimately still be retrying; nothing crashed
		rc.Probe("c07.handshake-not-finished")
	}
	cli, e1 := p.cli.get()
	srv, e2 := p.srv.get()
	c07Invariants(rc, "client", cli)
	c07Invariants(rc, "server", srv)
	if e1 != nil || e2 != nil || cli == nil || srv == nil {
		rc.Probe("c07.constructor-failed-with-error")
		rc.Progress()
		p.closeAll()
		return
	}
	rc.Sample("N=%d phase=%s target=%s", n, phase, target)
	// application traffic with the C01 oracle, both directions
	var wg sync.WaitGroup
	m := 4 + rc.Pick(30, "wl.msgs")
	run := func(from, to *GoBackNConn, dir byte) {
		wg.Add(2)
		go func() {
			defer wg.Done()
			for i := 0; i < m; i++ {
				if from.Send(mkMsg(dir, i, 10+i%5)) != nil {
					return
				}
			}
		}()
		go func() {
			defer wg.Done()
			to.SetRecvTimeout(time.Minute)
			for i := 0; i < m; i++ {
				b, err := to.Recv()
				if err != nil {
					return
				}
				if !eqBytes(b, mkMsg(dir, i, 10+i%5)) {
					// forged DATA/ACK can legitimately break the stream
					// (GBN is not authenticated); what must not happen is a
					// crash. Counted, not flagged.
					rc.Probe("c07.stream-disturbed-by-forgery")
					return
				}
				rc.Progress()
			}
		}()
	}
	switch phase {
	case "outstanding", "resend":
		// withhold the target's acknowledgements so that it sits on k
		// outstanding packets when the garbage arrives
		var bmu sync.Mutex
		black := true
		other := np.c2s
		if target == "server" {
			other = np.s2c
		}
		_ = other
		tl.mu.Lock()
		tl.filter = func(b []byte, _ time.Duration) (byte, time.Duration) {
			bmu.Lock()
			defer bmu.Unlock()
			if black && len(b) > 0 && (b[0] == ACK || b[0] == NACK) {
				return 'x', 0
			}
			return 0, 0
		}
		tl.mu.Unlock()
		if target == "client" {
			run(cli, srv, 'A')
		} else {
			run(srv, cli, 'B')
		}
		wait := 20 * time.Millisecond
		if phase == "resend" {
			wait = tk.resend + time.Duration(rc.Pick(int(3*tk.resend/time.Millisecond), "inj.at"))*time.Millisecond
		}
		time.Sleep(wait)
		injectSome(1 + rc.Pick(6, "inj.count"))
		time.Sleep(10 * time.Millisecond)
		c07Invariants(rc, "client", cli)
		c07Invariants(rc, "server", srv)
		bmu.Lock()
		black = false
		bmu.Unlock()
	case "idle", "handshake":
		if phase == "idle" {
			injectSome(1 + rc.Pick(6, "inj.count"))
			time.Sleep(10 * time.Millisecond)
			c07Invariants(rc, "client", cli)
			c07Invariants(rc, "server", srv)
		}
		run(cli, srv, 'A')
		run(srv, cli, 'B')
	}
	done := make(chan struct{})
	go func() { wg.Wait(); close(done) }()
	select {
	case <-done:
	case <-time.After(10 * time.Minute):
		rc.Probe("c07.traffic-did-not-finish")
	}
	c07Invariants(rc, "client", cli)
	c07Invariants(rc, "server", srv)
	p.closeAll()
	select {
	case <-done:
	case <-time.After(time.Minute):
	}
}

// rcTier exposes the tier to enumerations whose size depends on it.
func rcTier() string { return simrt.Tier() }

// c07Window: forged ACK / NACK values against every window state of a queue
// whose retransmission buffer holds exactly the packets in flight.
func c07Window(rc *simrt.RunCtx) {
	s := c09S[rc.Idx()%len(c09S)]
	tm := NewTimeOutManager(nil)
	q := newQueue(&queueCfg{s: uint8(s), sendPkt: func(p *PacketData) error { _ = p.Seq; return nil }}, tm)
	cases := 0
	for base := 0; base < s; base++ {
		for top := 0; top < s; top++ {
			for i := range q.content {
				q.content[i] = nil
			}
			for x := base; x != top; x = (x + 1) % s {
				q.content[x] = &PacketData{Seq: uint8(x)}
			}
			for v := 0; v < 256; v++ {
				for kind := 0; kind < 2; kind++ {
					q.sequenceBase, q.sequenceTop = uint8(base), uint8(top)
					what := "ACK"
					if kind == 0 {
						q.processACK(uint8(v))
					} else {
						what = "NACK"
						q.processNACK(uint8(v))
					}
					cases++
					nb, nt := int(q.sequenceBase), int(q.sequenceTop)
					if nb >= s || nt >= s || nt != top || !inCyclic(base, top, nb, s) {
						rc.Violate("c07.window-outside-range", what, "s=%d base=%d top=%d, forged %s(%d): window became base=%d top=%d, outside the packets that were in flight", s, base, top, what, v, nb, nt)
						return
					}
					for x := nb; x != nt; x = (x + 1) % s {
						if q.content[x] == nil {
							rc.Violate("c07.window-outside-range", what+"/nil-slot", "s=%d base=%d top=%d, forged %s(%d): window is now [%d,%d) and slot %d, which the next retransmission serializes, holds no packet", s, base, top, what, v, nb, nt, x)
							return
						}
					}
				}
			}
		}
	}
	rc.ProbeN("c07.window-forgery-cases", cases)
	rc.Progress()
	rc.Fault(fmt.Sprintf("forged-ack-nack-s=%d", s))
}

// c07Flood: non-final chunks without end.
func c07Flood(rc *simrt.RunCtx) {
	toServer := rc.Idx()%2 == 0
	keepalive := rc.Idx()/2 == 1
	n := uint8(DefaultN)
	tk := tknobs{handshake: 300 * time.Millisecond, static: true, resend: time.Second}
	if keepalive {
		tk.ping, tk.pong = 5*time.Second, 3*time.Second
	}
	lat := time.Millisecond
	c2s := &netCfg{latMin: lat, latMax: lat}
	s2c := &netCfg{latMin: lat, latMax: lat}
	np := newNetPair(rc, c2s, s2c)
	opts := []Option{WithTimeoutOptions(tk.opts()...)}
	p := startPair(rc, np, n, opts, opts)
	if !p.waitBoth(time.Minute) {
		rc.HarnessError("fault-free handshake did not complete")
		p.closeAll()
		return
	}
	cli, _ := p.cli.get()
	srv, _ := p.srv.get()
	if cli == nil || srv == nil {
		rc.HarnessError("fault-free handshake failed")
		p.closeAll()
		return
	}
	defer p.closeAll()
	victim, l, name := srv, np.c2s, "server"
	if !toServer {
		victim, l, name = cli, np.s2c, "client"
	}
	rc.Knob("case", fmt.Sprintf("victim=%s keepalive=%v", name, keepalive))
	recvRes := make(chan error, 1)
	go func() {
		_, err := victim.Recv()
		recvRes <- err
	}()
	const chunk = 60 * 1024
	const total = 8 << 20
	payload := make([]byte, chunk)
	s := int(n) + 1
	sent := 0
	for seq := 0; sent < total; seq = (seq + 1) % s {
		pkt := append([]byte{DATA, byte(seq), FALSE, FALSE}, payload...)
		l.inject(pkt, 0)
		sent += chunk
		time.Sleep(3 * time.Millisecond) // the endpoint takes it and acknowledges
		if isClosed(victim) {
			break
		}
	}
	rc.Fault("non-final-chunk-flood")
	select {
	case err := <-recvRes:
		if err == nil {
			rc.Violate("c07.unbounded-buffering", name+"/recv-returned", "Recv returned a message although no final chunk was ever delivered")
			return
		}
		rc.Probe("c07.flood-failed-the-connection")
		rc.Progress()
		return
	default:
	}
	// (the reassembly buffer is read by name, so that a tree in which it is
	// called differently still builds; the delivered amount stands in then)
	buffered := sent
	if f := reflect.ValueOf(victim).Elem().FieldByName("recvBuf"); f.IsValid() && f.Kind() == reflect.Slice {
		buffered = f.Len()
	}
	rc.Sample("victim=%s keepalive=%v: %d bytes of non-final chunks delivered, %d buffered, closed=%v", name, keepalive, sent, buffered, isClosed(victim))
	if !isClosed(victim) && buffered >= total {
		rc.Violate("c07.unbounded-buffering", "non-final-chunks", "the relay delivered %d bytes in DATA packets without the final-chunk flag; the %s acknowledged every one, holds all %d bytes in its reassembly buffer and is still open (no limit in sight: a relay can run the process out of memory before any authentication)", sent, name, buffered)
		return
	}
	rc.Probe("c07.flood-ignored")
	rc.Progress()
}
