package gbn

// C13 - keepalive: a peer that stops responding altogether is detected in
// bounded time whatever the endpoint was doing (idle, sending, window full);
// a peer that answers within the pong timeout is never dropped.

import (
	"strings"
	"sync"
	"time"

	"simrt"
)

func init() {
	simrt.Register(&simrt.Scenario{
		Prop: "C13", Name: "dead-peer", Count: tiered(3000, 480000),
		Run: c13Dead, MaxOps: 2 << 20, Horizon: 6 * time.Hour,
		Doc: "transport goes totally silent at a tape-chosen instant with 0..N+3 messages queued at that moment (idle / sending / full window with a blocked Send), in half of the runs after the connection has been through - and recovered from - a blackout on a full window that lasted longer than the ping interval; both endpoints must fail their calls within the bound",
	})
	simrt.Register(&simrt.Scenario{
		Prop: "C13", Name: "idle-healthy", Count: tiered(300, 160000),
		Run: c13Idle, MaxOps: 6 << 20, Horizon: 14 * time.Hour,
		Doc: "fault-free link with round-trip latency below the pong timeout, idle for up to 12 virtual hours (occasional traffic): keepalive must never close it",
	})
	simrt.Register(&simrt.Scenario{
		Prop: "C13", Name: "idle-lost-ack", Count: tiered(150, 160000),
		Run: func(rc *simrt.RunCtx) { c13IdleX(rc, "lost-ack") }, MaxOps: 6 << 20, Horizon: 14 * time.Hour,
		Doc: "as idle-healthy on a fast link that loses an isolated ACK now and then (at most one per 15 s and direction; resend timeout 100-400 ms, pong timeout 2-5 s): the peer answers the retransmitted ping with a NACK well inside the pong timeout, keepalive must not close the connection",
	})
	simrt.Register(&simrt.Scenario{
		Prop: "C13", Name: "full-window-lost-acks", Count: tiered(300, 160000),
		Run: func(rc *simrt.RunCtx) { c13IdleX(rc, "lost-ack-burst") }, MaxOps: 6 << 20, Horizon: 14 * time.Hour,
		Doc: "a live peer on a fast, otherwise fault-free link; the client fills its send window and the acknowledgements of exactly that burst are lost; the resend timeout is 1-3 x (ping + pong), so that for a while only the keepalive talks to the peer: it must find the peer alive (a probe has to be sent and is answered at once), not close the connection",
	})
	simrt.Register(&simrt.Scenario{
		Prop: "C13", Name: "idle-resonant", Count: tiered(800, 480000),
		Run: func(rc *simrt.RunCtx) { c13IdleX(rc, "resonant") }, MaxOps: 6 << 20, Horizon: 14 * time.Hour,
		Doc: "as idle-healthy, with windows of 1-3 packets (the pings themselves fill the window), equal ping intervals on both sides, one-way latency a multiple of ping/8 and a pong timeout between the round trip and ping + round trip: ping ticks, pong expiries and packet arrivals fall on the same virtual instants, the tape orders them",
	})
}

func c13Knobs(rc *simrt.RunCtx) (tkC, tkS tknobs) {
	var pingC, pingS, pong time.Duration
	switch rc.Pick(3, "knob.keepalive") {
	case 0:
		pingC = time.Duration(1+rc.Pick(8, "knob.ping")) * time.Second
		pingS = pingC
		pong = time.Duration(1+rc.Pick(5, "knob.pong")) * time.Second
	case 1:
		pingC, pingS, pong = 7*time.Second, 5*time.Second, 3*time.Second
	case 2:
		// pong longer than ping
		pingC = time.Duration(1+rc.Pick(3, "knob.pingc")) * time.Second
		pingS = time.Duration(1+rc.Pick(3, "knob.pings")) * time.Second
		pong = time.Duration(3+rc.Pick(5, "knob.pong")) * time.Second
	}
	tkC = tknobs{handshake: 500 * time.Millisecond, ping: pingC, pong: pong}
	tkS = tknobs{handshake: 500 * time.Millisecond, ping: pingS, pong: pong}
	if rc.Pick(3, "knob.adaptive") != 0 {
		st := []time.Duration{100 * time.Millisecond, 400 * time.Millisecond, time.Second, 3 * time.Second}
		tkC.static, tkS.static = true, true
		tkC.resend = st[rc.Pick(len(st), "knob.resendc")]
		tkS.resend = st[rc.Pick(len(st), "knob.resends")]
	} else {
		tkC.resend, tkS.resend = time.Second, time.Second
	}
	return
}

func c13Dead(rc *simrt.RunCtx) {
	ns := []uint8{1, 2, 3, 5, DefaultN}
	n := ns[rc.Pick(len(ns), "knob.n")]
	tkC, tkS := c13Knobs(rc)
	rc.Knob("N", n)
	rc.Knob("client", tkC)
	rc.Knob("server", tkS)
	c2s := &netCfg{latMin: time.Millisecond, latMax: time.Duration(1+rc.Pick(30, "net.lat")) * time.Millisecond}
	s2c := &netCfg{latMin: time.Millisecond, latMax: c2s.latMax}
	np := newNetPair(rc, c2s, s2c)
	p := startPair(rc, np, n, []Option{WithTimeoutOptions(tkC.opts()...)}, []Option{WithTimeoutOptions(tkS.opts()...)})
	if !p.waitBoth(time.Minute) {
		rc.HarnessError("fault-free handshake did not complete")
		p.closeAll()
		return
	}
	cli, e1 := p.cli.get()
	srv, e2 := p.srv.get()
	if e1 != nil || e2 != nil {
		rc.HarnessError("fault-free handshake failed: %v %v", e1, e2)
		p.closeAll()
		return
	}
	var wg sync.WaitGroup
	var trC, trS callTracker
	// background receivers (blocked Recv calls that must be woken)
	for _, x := range []struct {
		g  *GoBackNConn
		tr *callTracker
	}{{cli, &trC}, {srv, &trS}} {
		x := x
		wg.Add(1)
		go func() {
			defer wg.Done()
			for {
				x.tr.begin()
				_, err := x.g.Recv()
				x.tr.end(err)
				if err != nil {
					return
				}
			}
		}()
	}
	// some healthy traffic first, so that timers are in arbitrary phases
	warm := rc.Pick(6, "wl.warm")
	for i := 0; i < warm; i++ {
		if cli.Send(mkMsg('A', i, 20)) != nil || srv.Send(mkMsg('B', i, 20)) != nil {
			break
		}
	}
	// sometimes the connection has been through a stall before: a blackout
	// long enough for a ping tick to pass while the client sits on a full
	// window, short enough to survive; then everything recovers
	if rc.Pick(2, "wl.earlier-stall") == 1 {
		from := rc.Now()
		dur := tkC.ping + time.Duration(rc.Pick(int(tkC.pong/2/time.Millisecond)+1, "wl.stall-len"))*time.Millisecond
		w := window{from, from + dur}
		np.c2s.mu.Lock()
		c2s.blackouts = append(c2s.blackouts, w)
		np.c2s.mu.Unlock()
		np.s2c.mu.Lock()
		s2c.blackouts = append(s2c.blackouts, w)
		np.s2c.mu.Unlock()
		wg.Add(1)
		go func() {
			defer wg.Done()
			for i := 0; i <= int(n); i++ {
				if cli.Send(mkMsg('A', 500+i, 20)) != nil {
					return
				}
			}
		}()
		time.Sleep(dur + 25*cli.timeoutManager.GetResendTimeout() + 2*time.Second)
		if isClosed(cli) || isClosed(srv) {
			// the stall outlasted the keepalive: legitimate, and not what
			// this run was meant to look at
			rc.Probe("c13.earlier-stall-ended-the-connection")
			p.closeAll()
			return
		}
		rc.Fault("earlier-full-window-stall")
	}
	// silence begins at a tape-chosen instant (finer than every timer phase)
	time.Sleep(time.Duration(rc.Pick(20000, "wl.silence-at")) * time.Millisecond)
	tSilence := rc.Now()
	forever := window{tSilence, 1 << 62}
	np.c2s.mu.Lock()
	c2s.blackouts = append(c2s.blackouts, forever)
	np.c2s.mu.Unlock()
	np.s2c.mu.Lock()
	s2c.blackouts = append(s2c.blackouts, forever)
	np.s2c.mu.Unlock()
	rc.Fault("total-silence")
	rAtSilence := cli.timeoutManager.GetResendTimeout()
	if r := srv.timeoutManager.GetResendTimeout(); r > rAtSilence {
		rAtSilence = r
	}
	// queued outbound data at that instant: 0 .. N+3 messages per side
	kC := rc.Pick(int(n)+4, "wl.queued-client")
	kS := 0
	if rc.Pick(2, "wl.server-too") == 1 {
		kS = rc.Pick(int(n)+4, "wl.queued-server")
	}
	queue := func(g *GoBackNConn, tr *callTracker, dir byte, k int) {
		wg.Add(1)
		go func() {
			defer wg.Done()
			for i := 0; i < k; i++ {
				tr.begin()
				err := g.Send(mkMsg(dir, 1000+i, 20))
				tr.end(err)
				if err != nil {
					return
				}
			}
		}()
	}
	queue(cli, &trC, 'A', kC)
	queue(srv, &trS, 'B', kS)
	state := func(k int) string {
		switch {
		case k == 0:
			return "idle"
		case k < int(n):
			return "sending"
		case k == int(n):
			return "window-full"
		}
		return "window-full+blocked-send"
	}
	rc.Sample("N=%d client[%v] server[%v] silence@%v queued client=%d(%s) server=%d(%s)", n, tkC, tkS, tSilence, kC, state(kC), kS, state(kS))
	rc.Probe("c13.client-" + state(kC))
	bound := func(tk tknobs) time.Duration {
		return tSilence + 3*(tk.ping+tk.pong) + 20*rAtSilence + 5*time.Second
	}
	bC, bS := bound(tkC), bound(tkS)
	end := bC
	if bS > end {
		end = bS
	}
	for rc.Now() < end {
		time.Sleep(200 * time.Millisecond)
		if isClosed(cli) && isClosed(srv) && trC.pending()+trS.pending() == 0 {
			break
		}
	}
	check := func(who string, g *GoBackNConn, tr *callTracker, tk tknobs, k int) {
		if rc.Failed() {
			return
		}
		if !isClosed(g) {
			rc.Violate("c13.dead-peer-undetected", who+"/"+state(k),
				"%s still open %v after the transport went totally silent (ping %v, pong %v, resend timeout %v at that moment, N=%d, %d messages queued: %s)",
				who, rc.Now()-tSilence, tk.ping, tk.pong, rAtSilence, n, k, state(k))
			return
		}
		pn := tr.pending()
		if pn > 0 {
			time.Sleep(200 * time.Millisecond)
			pn = tr.pending()
		}
		if pn > 0 {
			rc.Violate("c13.calls-hang", who+"/"+state(k), "%s closed but %d application calls are still blocked %v after the silence began", who, pn, rc.Now()-tSilence)
			return
		}
		if g.Send([]byte("late")) == nil {
			rc.Violate("c13.calls-hang", who+"/send-after-close", "%s: Send succeeded after the keepalive closure", who)
		}
		if _, err := g.Recv(); err == nil {
			rc.Violate("c13.calls-hang", who+"/recv-after-close", "%s: Recv succeeded after the keepalive closure", who)
		}
	}
	check("client", cli, &trC, tkC, kC)
	check("server", srv, &trS, tkS, kS)
	if !rc.Failed() {
		rc.Progress()
	}
	p.closeAll()
	done := make(chan struct{})
	go func() { wg.Wait(); close(done) }()
	select {
	case <-done:
	case <-time.After(time.Minute):
	}
}

func c13Idle(rc *simrt.RunCtx) { c13IdleX(rc, "") }

func c13IdleX(rc *simrt.RunCtx, mode string) {
	resonant, lostAck, burst := mode == "resonant", mode == "lost-ack", mode == "lost-ack-burst"
	ns := []uint8{1, 2, DefaultN, 254}
	if resonant {
		ns = []uint8{1, 2, 3}
	}
	if burst {
		ns = []uint8{1, 2, 3, 5, DefaultN}
	}
	n := ns[rc.Pick(len(ns), "knob.n")]
	tkC, tkS := c13Knobs(rc)
	// one-way latency such that a ping's ACK is back within the pong timeout
	maxOneWay := tkC.pong/2 - 50*time.Millisecond
	lat := time.Millisecond + time.Duration(rc.Pick(int(maxOneWay/time.Millisecond), "net.lat"))*time.Millisecond
	if rc.Pick(2, "net.fast") == 0 {
		lat = time.Duration(1+rc.Pick(20, "net.latfast")) * time.Millisecond
	}
	if resonant {
		ping := time.Duration(1+rc.Pick(3, "knob.rping")) * time.Second
		lat = ping * time.Duration(1+rc.Pick(12, "knob.rlat")) / 8
		pong := 2*lat + ping*time.Duration([]int{1, 2, 3, 5}[rc.Pick(4, "knob.rpong")])/4
		tkC.ping, tkS.ping, tkC.pong, tkS.pong = ping, ping, pong, pong
	}
	if lostAck {
		// a live peer whose acknowledgement of a ping (or of a message) is
		// lost now and then: the retransmission is answered - with a NACK -
		// well inside the pong timeout
		pong := time.Duration(2+rc.Pick(4, "knob.lpong")) * time.Second
		tkC.pong, tkS.pong = pong, pong
		tkC.ping = time.Duration(2+rc.Pick(7, "knob.lpingc")) * time.Second
		tkS.ping = time.Duration(2+rc.Pick(7, "knob.lpings")) * time.Second
		tkC.static, tkS.static = true, true
		tkC.resend = []time.Duration{100 * time.Millisecond, 400 * time.Millisecond}[rc.Pick(2, "knob.lresc")]
		tkS.resend = []time.Duration{100 * time.Millisecond, 400 * time.Millisecond}[rc.Pick(2, "knob.lress")]
		lat = time.Duration(1+rc.Pick(20, "net.latfast")) * time.Millisecond
	}
	if burst {
		// a resend timeout that is long compared with ping + pong: after
		// the acknowledgements of a full window got lost, nothing but the
		// keepalive itself will talk to the (live, fast) peer for a while
		tkC.static, tkS.static = true, true
		tkC.resend = (tkC.ping + tkC.pong) * time.Duration(1+rc.Pick(3, "knob.bres"))
		tkS.resend = tkC.resend
		// (the peer's own pings would count as signs of life: they come
		// rarely here)
		tkS.ping = tkC.ping + tkC.pong + time.Duration(2+rc.Pick(20, "knob.bpings"))*time.Second
		lat = time.Duration(1+rc.Pick(20, "net.latfast")) * time.Millisecond
		// the handshake timeout - which the data phase reuses as the minimum
		// distance between two retransmissions of the queue - may be long
		// (configured so, or boosted by SYN resends during a slow start)
		hs := []time.Duration{500 * time.Millisecond, 500 * time.Millisecond, 15 * time.Second, 60 * time.Second}[rc.Pick(4, "knob.bhs")]
		tkC.handshake, tkS.handshake = hs, hs
	}
	rc.Knob("N", n)
	rc.Knob("client", tkC)
	rc.Knob("server", tkS)
	// the handshake runs over a fast link; the property is about an
	// established connection
	c2s := &netCfg{latMin: time.Millisecond, latMax: time.Millisecond}
	s2c := &netCfg{latMin: time.Millisecond, latMax: time.Millisecond}
	np := newNetPair(rc, c2s, s2c)
	sink := installLog()
	p := startPair(rc, np, n, []Option{WithTimeoutOptions(tkC.opts()...)}, []Option{WithTimeoutOptions(tkS.opts()...)})
	if !p.waitBoth(5 * time.Minute) {
		rc.HarnessError("fault-free handshake did not complete")
		p.closeAll()
		return
	}
	cli, e1 := p.cli.get()
	srv, e2 := p.srv.get()
	if e1 != nil || e2 != nil {
		// with round trips above the handshake timeout a constructor may
		// legitimately give up; not what this scenario is about
		rc.Probe("c13.slow-handshake-failed")
		p.closeAll()
		return
	}
	// sometimes the transport's write call returns late - after the packet,
	// and possibly its acknowledgement, have already travelled
	var lag time.Duration
	if rc.Pick(3, "net.sendlag") == 0 && !lostAck && !burst {
		lag = time.Duration(1+rc.Pick(int(3*lat/time.Millisecond)+1, "net.sendlagms")) * time.Millisecond
		if lag > tkC.pong/2 {
			lag = tkC.pong / 2
		}
		rc.Fault("slow-write-call")
	}
	np.c2s.mu.Lock()
	c2s.latMin, c2s.latMax = lat, lat
	np.c2s.sendLag = lag
	np.c2s.mu.Unlock()
	np.s2c.mu.Lock()
	s2c.latMin, s2c.latMax = lat, lat
	np.s2c.sendLag = lag
	np.s2c.mu.Unlock()
	// Did the peer answer? A keepalive closure is what C13 asks for if the
	// endpoint, after hearing nothing for its ping time, transmitted something
	// (its ping, or the retransmission that serves as the probe on a full
	// window) and then heard nothing for its pong timeout - whatever kept the
	// peer from answering. Per endpoint: when something was last delivered to
	// it, and what it has transmitted since; evaluated when it sends its FIN.
	var amu sync.Mutex
	lastHeard := map[string]time.Duration{"(client)": rc.Now(), "(server)": rc.Now()}
	sentSince := map[string][]time.Duration{}
	probedInVain := map[string]bool{}
	pingOf := map[string]time.Duration{"(client)": tkC.ping, "(server)": tkS.ping}
	pongOfWho := map[string]time.Duration{"(client)": tkC.pong, "(server)": tkS.pong}
	mon := func(out, in *link, who string) {
		out.mu.Lock()
		out.onSend = func(b []byte) {
			amu.Lock()
			now := rc.Now()
			if len(b) > 0 && b[0] == FIN {
				for _, t := range sentSince[who] {
					if t-lastHeard[who] >= pingOf[who]-5*time.Millisecond && now-t >= pongOfWho[who] {
						probedInVain[who] = true
					}
				}
			} else if len(sentSince[who]) < 4096 {
				sentSince[who] = append(sentSince[who], now)
			}
			amu.Unlock()
		}
		out.mu.Unlock()
		in.mu.Lock()
		in.tap = func([]byte) {
			amu.Lock()
			lastHeard[who] = rc.Now()
			sentSince[who] = sentSince[who][:0]
			amu.Unlock()
		}
		in.mu.Unlock()
	}
	mon(np.c2s, np.s2c, "(client)")
	mon(np.s2c, np.c2s, "(server)")
	if lostAck {
		for _, l := range []*link{np.c2s, np.s2c} {
			l := l
			lastDrop := time.Duration(-1 << 40)
			l.mu.Lock()
			l.filter = func(b []byte, now time.Duration) (byte, time.Duration) {
				// isolated losses only: one ACK, then nothing for a while
				if len(b) > 0 && b[0] == ACK && now-lastDrop > 15*time.Second && simrt.Pm(150, "net.lose-ack") {
					lastDrop = now
					rc.Probe("c13.ack-lost")
					return 'x', 0
				}
				return 0, 0
			}
			l.mu.Unlock()
		}
	}
	var wg sync.WaitGroup
	for _, g := range []*GoBackNConn{cli, srv} {
		g := g
		wg.Add(1)
		go func() {
			defer wg.Done()
			for {
				if _, err := g.Recv(); err != nil {
					return
				}
			}
		}()
	}
	minPing := tkC.ping
	if tkS.ping < minPing {
		minPing = tkS.ping
	}
	total := 12 * time.Hour
	if lim := 2500 * minPing; lim < total {
		total = lim
	}
	if resonant || lostAck {
		total = 1200 * minPing
	}
	if burst {
		total = 40 * (tkC.ping + tkC.pong + tkC.resend)
		// the client fills its window (and tries to send a little more);
		// every acknowledgement of that burst is lost, then the link is fine
		var fmu sync.Mutex
		from := rc.Now()
		seen := map[byte]bool{} // DATA sequence numbers offered since the burst began
		retransmitted := false  // ... one of them for the second time: the losses end there
		np.c2s.mu.Lock()
		prevOnSend := np.c2s.onSend
		np.c2s.onSend = func(b []byte) {
			if prevOnSend != nil {
				prevOnSend(b)
			}
			if len(b) >= 4 && b[0] == DATA {
				fmu.Lock()
				if seen[b[1]] {
					retransmitted = true
				}
				seen[b[1]] = true
				fmu.Unlock()
			}
		}
		np.c2s.mu.Unlock()
		np.s2c.mu.Lock()
		np.s2c.filter = func(b []byte, now time.Duration) (byte, time.Duration) {
			fmu.Lock()
			f, re := from, retransmitted
			fmu.Unlock()
			// only the acknowledgements of the burst's first transmissions
			// are lost: whatever answers a retransmission (the keepalive's
			// probe among them) gets through
			if len(b) > 0 && (b[0] == ACK || b[0] == NACK) && !re && now >= f && now-f < tkC.ping/2 {
				rc.Probe("c13.burst-ack-lost")
				return 'x', 0
			}
			return 0, 0
		}
		np.s2c.mu.Unlock()
		bursts := 1 + rc.Pick(2, "wl.bursts")
		wg.Add(1)
		go func() {
			defer wg.Done()
			for bi := 0; bi < bursts; bi++ {
				if bi > 0 {
					// a second episode a little later (after the first
					// one has been repaired by the probe or a resend)
					time.Sleep(tkC.ping + tkC.pong + tkC.resend + time.Duration(rc.Pick(5000, "wl.burst-gap"))*time.Millisecond)
					fmu.Lock()
					from = rc.Now()
					seen = map[byte]bool{}
					retransmitted = false
					fmu.Unlock()
				}
				k := int(n) + rc.Pick(3, "wl.burst-extra")
				for i := 0; i < k; i++ {
					if cli.Send(mkMsg('A', 9000+100*bi+i, 30)) != nil {
						return
					}
				}
				rc.Fault("ack-burst-lost")
			}
		}()
	}
	rc.Sample("N=%d client[%v] server[%v] one-way latency %v write-call lag %v idle for %v", n, tkC, tkS, lat, lag, total)
	start := rc.Now()
	msgs := 0
	var sendMu sync.Mutex
	sending := false
	for rc.Now()-start < total {
		gap := time.Duration(1+rc.Pick(1800, "wl.gap")) * time.Second
		time.Sleep(gap)
		if isClosed(cli) || isClosed(srv) {
			time.Sleep(5 * time.Second) // let both loops log why they stopped
			reasons := append(sink.closeReasons("(client)"), sink.closeReasons("(server)")...)
			who := ""
			for _, r := range reasons {
				if strings.Contains(r, errKeepaliveTimeout.Error()) {
					who = r[:8]
					break
				}
			}
			if who == "" {
				// closed, but not by keepalive: outside this property
				rc.Probe("c13.closed-for-another-reason")
				simrt.Note("closed for another reason: %v", reasons)
				break
			}
			amu.Lock()
			vain := probedInVain[who]
			amu.Unlock()
			if vain {
				// it probed after a ping time of silence and nothing reached
				// it for a pong timeout: the peer did not answer that probe
				rc.Probe("c13.closed-because-peer-did-not-answer")
				simrt.Note("%s closed by keepalive after a probe that nothing answered within the pong timeout", who)
				break
			}
			rc.Violate("c13.healthy-peer-dropped", who, "%s closed a healthy connection after %v idle (one-way latency %v, ping %v/%v, pong %v, resend %v/%v, N=%d, %d messages sent)",
				who, rc.Now()-start, lat, tkC.ping, tkS.ping, tkC.pong, tkC.resend, tkS.resend, n, msgs)
			break
		}
		sendMu.Lock()
		busy := sending
		sendMu.Unlock()
		if rc.Pick(4, "wl.traffic") == 0 && !busy {
			// (in a task of its own: with a window full of pings and an
			// unfair select order a Send can wait for a long time)
			sendMu.Lock()
			sending = true
			sendMu.Unlock()
			k := msgs
			msgs += 2
			wg.Add(1)
			go func() {
				defer wg.Done()
				cli.Send(mkMsg('A', k, 30))
				srv.Send(mkMsg('B', k+1, 30))
				sendMu.Lock()
				sending = false
				sendMu.Unlock()
			}()
		}
	}
	if !rc.Failed() {
		rc.Progress()
		rc.Fault("idle-period")
	}
	p.closeAll()
	done := make(chan struct{})
	go func() { wg.Wait(); close(done) }()
	select {
	case <-done:
	case <-time.After(time.Minute):
	}
}
