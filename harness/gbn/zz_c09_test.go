package gbn

// C09 - the sender never has more than N packets outstanding, Send blocks only
// when the window is full, the sequence space is strictly larger than the
// window and the window bookkeeping always stays inside it.

import (
	"fmt"
	"sync"
	"time"

	"simrt"
)

func init() {
	simrt.Register(&simrt.Scenario{
		Prop: "C09", Name: "window-wire", Count: tiered(4000, 640000),
		Run: c09Wire, MaxOps: 3 << 20, Horizon: 4 * time.Hour,
		Doc: "bidirectional traffic over a lossy transport; at every transmission: white-box queue invariants on the sending endpoint and black-box first-transmissions minus cumulatively acknowledged <= N on the wire",
	})
	simrt.Register(&simrt.Scenario{
		Prop: "C09", Name: "send-blocks", Count: tiered(1500, 48000),
		Run: c09Blocks, MaxOps: 2 << 20, Horizon: 2 * time.Hour,
		Doc: "acknowledgements blacked out after the handshake: exactly N Sends return, the next one blocks until the blackout ends and an ACK frees a slot",
	})
	simrt.Register(&simrt.Scenario{
		Prop: "C09", Name: "send-wakeup", Count: tiered(1500, 240000),
		Run: c09Wakeup, MaxOps: 2 << 20, Horizon: 2 * time.Hour,
		Doc: "Send blocks only while the window is full: (a) a stream of messages over a fault-free link with a resend timeout far above the round trip - no Send may take longer than a round trip plus a margin; (b) scripted: the ACKs of a full window are lost, a DATA packet is duplicated, the peer's NACK(top) empties the window - the blocked Send must return then, not at the next resend tick",
	})
	simrt.Register(&simrt.Scenario{
		Prop: "C09", Name: "window-arith", Enumerated: true, Count: fixed(len(c09S)),
		Run: c09Arith, MaxOps: 1 << 40, Serial: true,
		Doc: "exhaustive per sequence space s: every (base, top) window state x every ACK and NACK value 0..255 through processACK/processNACK; base may move only within [old base, old top], top never moves, both stay < s",
	})
}

// wireMon is the black-box window monitor of one sending direction: it
// watches DATA on the forward link and ACK/NACK delivered on the reverse link.
type wireMon struct {
	mu      sync.Mutex
	rc      *simrt.RunCtx
	name    string
	n       int    // window the client proposed
	s       int    // n+1
	firstTx uint64 // number of first transmissions so far
	acked   uint64 // cumulative acknowledgements delivered to the sender
	maxOut  int
}

func (m *wireMon) onData(b []byte) {
	if len(b) < 4 || b[0] != DATA {
		return
	}
	m.mu.Lock()
	defer m.mu.Unlock()
	seq := int(b[1])
	if seq == int(m.firstTx%uint64(m.s)) {
		// The outstanding packets carry the `out` sequence numbers before
		// this one. As long as out <= n = s-1 this number is not among them,
		// so the packet is a first transmission (with out == n it is the
		// (n+1)-th outstanding packet: the violation). Only when the window
		// already covers the whole sequence space is it ambiguous.
		out := int(m.firstTx - m.acked)
		if out < m.s {
			m.firstTx++
			out++
			if out > m.maxOut {
				m.maxOut = out
			}
			if out > m.n {
				m.rc.Violate("c09.window-wire", "outstanding>N",
					"%s: %d data packets outstanding on the wire (first transmissions %d, cumulatively acknowledged %d) with window N=%d", m.name, out, m.firstTx, m.acked, m.n)
			}
			return
		}
	}
	m.rc.Probe("c09.retransmission")
}

func (m *wireMon) onAck(b []byte) {
	if len(b) < 2 {
		return
	}
	m.mu.Lock()
	defer m.mu.Unlock()
	seq := uint64(b[1])
	s := uint64(m.s)
	switch b[0] {
	case ACK:
		for i := m.acked; i < m.firstTx; i++ {
			if i%s == seq {
				m.acked = i + 1
				return
			}
		}
	case NACK:
		for i := m.acked; i <= m.firstTx; i++ {
			if i%s == seq {
				m.acked = i
				return
			}
		}
	}
}

// checkQueue evaluates the white-box invariants of an endpoint's sender state.
func checkQueue(rc *simrt.RunCtx, who string, g *GoBackNConn, proposed uint8) {
	q := g.sendQueue
	q.baseMtx.RLock()
	base := q.sequenceBase
	q.baseMtx.RUnlock()
	q.topMtx.RLock()
	top := q.sequenceTop
	q.topMtx.RUnlock()
	n, s, qs := g.cfg.n, g.cfg.s, q.cfg.s
	size := q.size()
	rc.State(uint64(s), uint64(base), uint64(top), uint64(g.recvSeq))
	switch {
	case n < 1 || n > 254:
		rc.Violate("c09.whitebox", "n-out-of-range", "%s: window n=%d is outside 1..254", who, n)
	case s != n+1 || qs != s:
		rc.Violate("c09.whitebox", "s!=n+1", "%s: sequence space s=%d (queue %d) with window n=%d", who, s, qs, n)
	case n != proposed:
		rc.Violate("c09.whitebox", "n!=proposed", "%s: window n=%d but the client proposed %d", who, n, proposed)
	case base >= s || top >= s:
		rc.Violate("c09.whitebox", "index-out-of-space", "%s: base=%d top=%d outside sequence space s=%d", who, base, top, s)
	case size > n:
		rc.Violate("c09.whitebox", "size>n", "%s: queue size %d exceeds window n=%d (base=%d top=%d)", who, size, n, base, top)
	}
}

func c09Wire(rc *simrt.RunCtx) {
	var n uint8
	if rc.Pick(3, "knob.nmode") == 2 {
		n = uint8(1 + rc.Pick(254, "knob.n"))
	} else {
		n = c01Ns[rc.Pick(len(c01Ns), "knob.n")]
	}
	tk := tknobs{handshake: 200 * time.Millisecond, static: true, resend: time.Duration(50+50*rc.Pick(4, "knob.resend")) * time.Millisecond}
	if rc.Pick(4, "knob.adaptive") == 3 {
		tk.static = false
		tk.resend = time.Second
	}
	if rc.Pick(4, "knob.keepalive") == 3 {
		tk.ping = time.Duration(1+rc.Pick(4, "knob.ping")) * time.Second
		tk.pong = time.Duration(1+rc.Pick(3, "knob.pong")) * time.Second
	}
	rc.Knob("N", n)
	rc.Knob("timeouts", tk)
	c2s, s2c := swarmNet(rc, "net.c2s", tk.resend), swarmNet(rc, "net.s2c", tk.resend)
	np := newNetPair(rc, c2s, s2c)
	monC := &wireMon{rc: rc, name: "client->server", n: int(n), s: int(n) + 1}
	monS := &wireMon{rc: rc, name: "server->client", n: int(n), s: int(n) + 1}
	opts := []Option{WithTimeoutOptions(tk.opts()...)}
	p := startPair(rc, np, n, opts, opts)
	// The monitors and white-box probes hang off the transport callbacks.
	np.c2s.filter = func(b []byte, _ time.Duration) (byte, time.Duration) {
		monC.onData(b)
		if c, _ := p.cli.get(); c != nil {
			checkQueue(rc, "client", c, n)
		}
		return 0, 0
	}
	np.s2c.filter = func(b []byte, _ time.Duration) (byte, time.Duration) {
		monS.onData(b)
		if c, _ := p.srv.get(); c != nil {
			checkQueue(rc, "server", c, n)
		}
		return 0, 0
	}
	np.s2c.tap = monC.onAck
	np.c2s.tap = monS.onAck

	mA, mB := rc.Range(1, 250, "wl.msgsA"), rc.Range(0, 250, "wl.msgsB")
	per := 1 + int(n)*(c2s.dropPm+s2c.dropPm)/1000
	if lim := 2000 / per; mA > lim {
		mA = lim
	}
	if lim := 2000 / per; mB > lim {
		mB = lim
	}
	rc.Sample("N=%d %v msgs c2s=%d s2c=%d", n, tk, mA, mB)
	done := make(chan struct{}, 4)
	var dmu sync.Mutex
	delivered := 0
	run := func(from, to *endpoint, dir byte, m int) {
		go func() {
			defer func() { done <- struct{}{} }()
			<-from.ready
			c, _ := from.get()
			if c == nil {
				return
			}
			for i := 0; i < m; i++ {
				if c.Send(mkMsg(dir, i, 9+i%11)) != nil {
					return
				}
			}
		}()
		go func() {
			defer func() { done <- struct{}{} }()
			<-to.ready
			c, _ := to.get()
			if c == nil {
				return
			}
			for i := 0; i < m; i++ {
				if _, err := c.Recv(); err != nil {
					return
				}
				rc.Progress()
				dmu.Lock()
				delivered++
				dmu.Unlock()
			}
		}()
	}
	run(p.cli, p.srv, 'A', mA)
	run(p.srv, p.cli, 'B', mB)
	finished, last, lastAt := 0, 0, rc.Now()
wait:
	for finished < 4 {
		select {
		case <-done:
			finished++
		case <-time.After(20 * time.Second):
			_, e1 := p.cli.get()
			_, e2 := p.srv.get()
			if e1 != nil || e2 != nil {
				break wait
			}
			dmu.Lock()
			d := delivered
			dmu.Unlock()
			if d != last {
				last, lastAt = d, rc.Now()
			} else if rc.Now()-lastAt > 5*time.Minute {
				break wait
			}
		}
	}
	if monC.maxOut == int(n) || monS.maxOut == int(n) {
		rc.Probe("c09.window-filled")
	}
	// final white-box look at both endpoints
	if c, _ := p.cli.get(); c != nil {
		checkQueue(rc, "client", c, n)
	}
	if c, _ := p.srv.get(); c != nil {
		checkQueue(rc, "server", c, n)
	}
	p.closeAll()
}

func c09Blocks(rc *simrt.RunCtx) {
	ns := []uint8{1, 2, 3, DefaultN, 254}
	n := ns[rc.Pick(len(ns), "knob.n")]
	if rc.Pick(4, "knob.nmode") == 3 {
		n = uint8(1 + rc.Pick(254, "knob.n2"))
	}
	// Long static resend timeout: nothing is given up during the blackout.
	tk := tknobs{handshake: 200 * time.Millisecond, static: true, resend: time.Duration(200+100*rc.Pick(4, "knob.resend")) * time.Millisecond}
	// keepalive pings are DATA packets and occupy window slots too; the pong
	// timeout is long so that the withheld acknowledgements do not end the
	// connection during the experiment
	if rc.Pick(2, "knob.keepalive") == 1 {
		tk.ping = time.Duration(300+100*rc.Pick(15, "knob.ping")) * time.Millisecond
		tk.pong = 10 * time.Minute
	}
	rc.Knob("N", n)
	rc.Knob("timeouts", tk)
	lat := &netCfg{latMin: time.Millisecond, latMax: time.Duration(1+rc.Pick(20, "net.lat")) * time.Millisecond}
	np := newNetPair(rc, lat, &netCfg{latMin: time.Millisecond, latMax: lat.latMax})
	var mu sync.Mutex
	blackout := false
	np.s2c.filter = func(b []byte, _ time.Duration) (byte, time.Duration) {
		mu.Lock()
		defer mu.Unlock()
		if blackout && len(b) > 0 && (b[0] == ACK || b[0] == NACK) {
			return 'x', 0
		}
		return 0, 0
	}
	// black-box window monitor on the client's direction (pings included)
	mon := &wireMon{rc: rc, name: "client->server", n: int(n), s: int(n) + 1}
	np.c2s.filter = func(b []byte, _ time.Duration) (byte, time.Duration) {
		mon.onData(b)
		return 0, 0
	}
	np.s2c.tap = mon.onAck
	opts := []Option{WithTimeoutOptions(tk.opts()...)}
	p := startPair(rc, np, n, opts, opts)
	if !p.waitBoth(time.Minute) {
		rc.HarnessError("fault-free handshake did not complete within a virtual minute")
		p.closeAll()
		return
	}
	cli, err1 := p.cli.get()
	srv, err2 := p.srv.get()
	if err1 != nil || err2 != nil {
		rc.HarnessError("fault-free handshake failed: %v / %v", err1, err2)
		p.closeAll()
		return
	}
	mu.Lock()
	blackout = true
	mu.Unlock()
	extra := 1 + rc.Pick(3, "wl.extra")
	total := int(n) + extra
	pauseAt, pauseFor := -1, time.Duration(0)
	if tk.ping != 0 && rc.Pick(2, "wl.pause") == 1 {
		pauseAt = int(n) - 1 - rc.Pick(2, "wl.pauseat")
		pauseFor = tk.ping + time.Duration(rc.Pick(int(tk.ping/time.Millisecond)+1, "wl.pausefor"))*time.Millisecond
	}
	var cmu sync.Mutex
	returned := 0
	sdone := make(chan struct{})
	go func() {
		defer close(sdone)
		for i := 0; i < total; i++ {
			if i == pauseAt {
				// leave room for exactly one more packet and let the ping
				// timer expire: the ping then fills the window
				time.Sleep(pauseFor)
			}
			if err := cli.Send(mkMsg('A', i, 12)); err != nil {
				return
			}
			cmu.Lock()
			returned++
			cmu.Unlock()
		}
	}()
	rdone := make(chan struct{})
	go func() {
		defer close(rdone)
		for i := 0; i < total; i++ {
			if _, err := srv.Recv(); err != nil {
				return
			}
		}
	}()
	// During the blackout exactly N Sends may return.
	hold := time.Duration(1+rc.Pick(20, "wl.hold")) * time.Second
	time.Sleep(hold)
	cmu.Lock()
	r := returned
	cmu.Unlock()
	rc.Sample("N=%d extra=%d hold=%v returned-during-blackout=%d", n, extra, hold, r)
	if r > int(n) {
		rc.Violate("c09.send-blocks", "more-than-N-returned", "with all acknowledgements withheld %d Sends returned, window N=%d", r, n)
	} else if r < int(n) && tk.ping != 0 {
		// unanswered pings occupy window slots as well
		rc.Probe("c09.pings-took-window-slots")
		rc.Progress()
		rc.Fault("ack-blackout")
	} else if r < int(n) {
		rc.Violate("c09.send-blocks", "blocked-before-window-full", "with a responsive transport only %d of the first N=%d Sends returned after %v without waiting for the peer", r, n, hold)
	} else {
		rc.Progress()
		rc.Fault("ack-blackout")
	}
	mu.Lock()
	blackout = false
	mu.Unlock()
	// After the blackout an ACK frees a slot and every Send returns.
	select {
	case <-sdone:
	case <-time.After(10 * time.Minute):
	}
	cmu.Lock()
	r = returned
	cmu.Unlock()
	if r != total && !rc.Failed() {
		rc.Violate("c09.send-blocks", "still-blocked-after-acks", "10 virtual minutes after acknowledgements flow again only %d of %d Sends returned (N=%d)", r, total, n)
	}
	select {
	case <-rdone:
	case <-time.After(time.Minute):
	}
	p.closeAll()
}

var c09S = func() []int {
	var out []int
	for s := 2; s <= 40; s++ {
		out = append(out, s)
	}
	return append(out, 64, 65, 128, 129, 200, 254, 255)
}()

func inCyclic(base, top, x, s int) bool {
	// x within [base, top] walking forward from base modulo s
	d := (top - base + s) % s
	dx := (x - base + s) % s
	return x < s && dx <= d
}

func c09Arith(rc *simrt.RunCtx) {
	s := c09S[rc.Idx()%len(c09S)]
	rc.Sample("sequence space s=%d: %d (base,top) states x 256 ACK values x 256 NACK values", s, s*s)
	tm := NewTimeOutManager(nil)
	q0 := newQueue(&queueCfg{s: uint8(s), sendPkt: func(*PacketData) error { return nil }}, tm)
	for i := range q0.content {
		q0.content[i] = &PacketData{Seq: uint8(i)}
	}
	mk := func(base, top int) *queue {
		q0.sequenceBase, q0.sequenceTop = uint8(base), uint8(top)
		return q0
	}
	cases := 0
	for base := 0; base < s; base++ {
		for top := 0; top < s; top++ {
			for v := 0; v < 256; v++ {
				for kind := 0; kind < 2; kind++ {
					q := mk(base, top)
					what := "ACK"
					if kind == 0 {
						q.processACK(uint8(v))
					} else {
						what = "NACK"
						q.processNACK(uint8(v))
					}
					cases++
					nb, nt := int(q.sequenceBase), int(q.sequenceTop)
					if nt != top {
						rc.Violate("c09.arith", what+"-moved-top", "s=%d base=%d top=%d %s(%d): top moved to %d", s, base, top, what, v, nt)
						return
					}
					if nb >= s {
						rc.Violate("c09.arith", what+"-base-outside-space", "s=%d base=%d top=%d %s(%d): base became %d, outside the sequence space", s, base, top, what, v, nb)
						return
					}
					if !inCyclic(base, top, nb, s) {
						rc.Violate("c09.arith", what+"-base-outside-window", "s=%d base=%d top=%d %s(%d): base moved to %d, outside [base, top]", s, base, top, what, v, nb)
						return
					}
				}
			}
		}
	}
	rc.ProbeN("c09.arith-cases", cases)
	rc.Progress()
	rc.Fault(fmt.Sprintf("enumerated-s=%d", s))
}

// c09Wakeup: a Send that was blocked on a full window returns as soon as an
// acknowledgement has freed a slot - not at the next timer tick.
func c09Wakeup(rc *simrt.RunCtx) {
	n := uint8(1 + rc.Pick(3, "knob.n"))
	lat := time.Duration(1+rc.Pick(10, "net.lat")) * time.Millisecond
	resend := time.Duration(2+rc.Pick(4, "knob.resend")) * time.Second
	tk := tknobs{handshake: 300 * time.Millisecond, static: true, resend: resend}
	scripted := rc.Pick(3, "wl.mode") == 2
	if !scripted && rc.Pick(2, "net.zero-latency") == 1 {
		// an in-process transport: the acknowledgement can be back while
		// the sender is still on its way into the full-window wait
		lat = 0
	}
	rc.Knob("case", fmt.Sprintf("N=%d lat=%v resend=%v scripted-nack=%v", n, lat, resend, scripted))
	c2s := &netCfg{latMin: lat, latMax: lat}
	s2c := &netCfg{latMin: lat, latMax: lat}
	np := newNetPair(rc, c2s, s2c)
	opts := []Option{WithTimeoutOptions(tk.opts()...)}
	p := startPair(rc, np, n, opts, opts)
	if !p.waitBoth(time.Minute) {
		rc.HarnessError("fault-free handshake did not complete")
		p.closeAll()
		return
	}
	cli, e1 := p.cli.get()
	srv, e2 := p.srv.get()
	if e1 != nil || e2 != nil || cli == nil || srv == nil {
		rc.HarnessError("fault-free handshake failed: %v %v", e1, e2)
		p.closeAll()
		return
	}
	defer p.closeAll()
	go func() {
		for {
			if _, err := srv.Recv(); err != nil {
				return
			}
		}
	}()
	margin := 2*lat + 60*time.Millisecond
	if !scripted {
		msgs := 40 + rc.Pick(200, "wl.msgs")
		rc.Sample("N=%d one-way %v resend %v: %d messages back to back over a fault-free link", n, lat, resend, msgs)
		for i := 0; i < msgs; i++ {
			t0 := rc.Now()
			if err := cli.Send(mkMsg('A', i, 12)); err != nil {
				rc.HarnessError("Send on a fault-free link: %v", err)
				return
			}
			if d := rc.Now() - t0; d > margin {
				rc.Violate("c09.send-blocks", "blocked-on-free-window", "Send #%d took %v on a fault-free link with a round trip of %v (N=%d, resend timeout %v): the acknowledgement that freed the window arrived long before, the Send only returned at a timer tick", i, d, 2*lat, n, resend)
				return
			}
		}
		rc.Progress()
		rc.Fault("back-to-back-sends")
		return
	}
	// scripted: the ACKs of the first N messages are lost, the last of them
	// is duplicated by the transport: the peer answers the duplicate with
	// NACK(top), which acknowledges everything
	rc.Sample("N=%d one-way %v resend %v: ACKs of a full window lost, last DATA duplicated, NACK(top) frees the window", n, lat, resend)
	var mu sync.Mutex
	lostAcks, nackAt := 0, time.Duration(-1)
	np.s2c.filter = func(b []byte, _ time.Duration) (byte, time.Duration) {
		mu.Lock()
		defer mu.Unlock()
		if len(b) >= 2 && b[0] == ACK && lostAcks < int(n) {
			lostAcks++
			return 'x', 0
		}
		return 0, 0
	}
	np.s2c.tap = func(b []byte) {
		if len(b) >= 2 && b[0] == NACK {
			mu.Lock()
			if nackAt < 0 {
				nackAt = rc.Now()
			}
			mu.Unlock()
		}
	}
	np.c2s.filter = func(b []byte, _ time.Duration) (byte, time.Duration) {
		if len(b) >= 4 && b[0] == DATA && b[1] == n-1 {
			return '2', 5 * time.Millisecond // the copy arrives right behind
		}
		return 0, 0
	}
	for i := 0; i < int(n); i++ {
		if err := cli.Send(mkMsg('A', i, 12)); err != nil {
			rc.HarnessError("Send %d: %v", i, err)
			return
		}
	}
	done := make(chan time.Duration, 1)
	go func() {
		cli.Send(mkMsg('A', int(n), 12))
		done <- rc.Now()
	}()
	select {
	case at := <-done:
		mu.Lock()
		na := nackAt
		mu.Unlock()
		if na >= 0 && at-na > margin {
			rc.Violate("c09.send-blocks", "blocked-after-nack-freed-window", "the NACK that acknowledged the whole window reached the sender at %v, the blocked Send returned %v later (round trip %v, resend timeout %v, N=%d)", na, at-na, 2*lat, resend, n)
			return
		}
		if na < 0 {
			rc.Probe("c09.wakeup-no-nack-seen")
		}
		rc.Progress()
		rc.Fault("nack-top-frees-window")
	case <-time.After(10 * time.Minute):
		rc.Violate("c09.send-blocks", "still-blocked-after-acks", "10 virtual minutes after the window was acknowledged the Send is still blocked (N=%d)", n)
	}
}
