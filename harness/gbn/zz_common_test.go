package gbn

import (
	"context"
	"encoding/binary"
	"fmt"
	"sync"
	"testing"
	"time"

	"github.com/btcsuite/btclog/v2"
	"simrt"
)

// TestSim is the single entry point of the harness binary; /verif/check
// drives it through SIM_MODE.
func TestSim(t *testing.T) { simrt.WorkerMain(t) }

func fixed(n int) func(string) int { return func(string) int { return n } }

func tiered(q, th int) func(string) int {
	return func(tier string) int {
		if tier == "thorough" {
			return th
		}
		return q
	}
}

// endpoint is one side of a GBN connection under construction.
type endpoint struct {
	mu    sync.Mutex
	conn  *GoBackNConn
	err   error
	ready chan struct{} // closed when the constructor returned
	at    time.Duration
}

func (e *endpoint) get() (*GoBackNConn, error) {
	e.mu.Lock()
	defer e.mu.Unlock()
	return e.conn, e.err
}

// connPair starts NewServerConn and NewClientConn as two tasks (tape-chosen
// start order) over the given links.
type connPair struct {
	cli, srv *endpoint
	cancel   func()
}

func startPair(rc *simrt.RunCtx, np *netPair, n uint8, cliOpts, srvOpts []Option) *connPair {
	ctx, cancel := context.WithCancel(context.Background())
	p := &connPair{cli: &endpoint{ready: make(chan struct{})}, srv: &endpoint{ready: make(chan struct{})}, cancel: cancel}
	startSrv := func() {
		go func() {
			c, err := NewServerConn(ctx, np.s2c.send, np.c2s.recv, srvOpts...)
			p.srv.mu.Lock()
			p.srv.conn, p.srv.err, p.srv.at = c, err, rc.Now()
			p.srv.mu.Unlock()
			close(p.srv.ready)
		}()
	}
	startCli := func() {
		go func() {
			c, err := NewClientConn(ctx, n, np.c2s.send, np.s2c.recv, cliOpts...)
			p.cli.mu.Lock()
			p.cli.conn, p.cli.err, p.cli.at = c, err, rc.Now()
			p.cli.mu.Unlock()
			close(p.cli.ready)
		}()
	}
	if rc.Pick(2, "wl.startorder") == 0 {
		startSrv()
		startCli()
	} else {
		startCli()
		startSrv()
	}
	return p
}

// waitBoth waits until both constructors returned or d elapsed.
func (p *connPair) waitBoth(d time.Duration) bool {
	to := time.After(d)
	for _, ch := range []chan struct{}{p.cli.ready, p.srv.ready} {
		select {
		case <-ch:
		case <-to:
			return false
		}
	}
	return true
}

func (p *connPair) closeAll() {
	p.cancel()
	if c, _ := p.cli.get(); c != nil {
		c.Close()
	}
	if c, _ := p.srv.get(); c != nil {
		c.Close()
	}
}

// message content: 12-byte header (dir, index, length) followed by a
// pseudo-random filler that is a function of (dir, index), so that any
// alteration, duplication or reordering is detected by regeneration.
func mkMsg(dir byte, idx int, size int) []byte {
	if size < 0 {
		size = 0
	}
	b := make([]byte, size)
	var hdr [12]byte
	hdr[0] = dir
	binary.BigEndian.PutUint32(hdr[1:], uint32(idx))
	binary.BigEndian.PutUint32(hdr[5:], uint32(size))
	copy(b, hdr[:9])
	x := uint64(dir)<<32 | uint64(uint32(idx)) + 0x9e3779b97f4a7c15
	for i := 9; i < size; i++ {
		x ^= x << 13
		x ^= x >> 7
		x ^= x << 17
		b[i] = byte(x)
	}
	return b
}

func describe(b []byte) string {
	if len(b) >= 9 {
		return fmt.Sprintf("dir=%c idx=%d declared=%d actual=%d", b[0], binary.BigEndian.Uint32(b[1:]), binary.BigEndian.Uint32(b[5:]), len(b))
	}
	return fmt.Sprintf("short(%d) %x", len(b), b)
}

func eqBytes(a, b []byte) bool {
	if len(a) != len(b) {
		return false
	}
	for i := range a {
		if a[i] != b[i] {
			return false
		}
	}
	return true
}

// drawSizes draws message sizes; sizes below 9 cannot carry the header and
// are only used where the oracle compares against the sent list directly.
func drawSizes(rc *simrt.RunCtx, n int, label string) []int {
	out := make([]int, n)
	mode := rc.Pick(4, label+".mode")
	for i := range out {
		switch mode {
		case 0:
			out[i] = 9 + i%23
		case 1:
			out[i] = 9 + rc.Pick(64, label)
		case 2:
			out[i] = 9 + rc.Pick(1500, label)
		case 3:
			if rc.Pick(8, label) == 0 {
				out[i] = 9 + rc.Pick(4000, label)
			} else {
				out[i] = 9 + rc.Pick(40, label)
			}
		}
	}
	return out
}

// timeoutKnobs draws the timeout configuration of a run.
type tknobs struct {
	static    bool
	resend    time.Duration
	handshake time.Duration
	ping      time.Duration
	pong      time.Duration
}

func (k tknobs) opts() []TimeoutOptions {
	var o []TimeoutOptions
	if k.static {
		o = append(o, WithStaticResendTimeout(k.resend))
	}
	if k.handshake != 0 {
		o = append(o, WithHandshakeTimeout(k.handshake))
	}
	if k.ping != 0 {
		o = append(o, WithKeepalivePing(k.ping, k.pong))
	}
	return o
}

func (k tknobs) String() string {
	return fmt.Sprintf("static=%v resend=%v hs=%v ping=%v pong=%v", k.static, k.resend, k.handshake, k.ping, k.pong)
}

// capLog captures the "Error in ..." debug lines of the connection loops so
// that oracles can tell why an endpoint closed (keepalive timeout vs. FIN vs.
// transport error) without touching the code under test.
type capLog struct {
	btclog.Logger
	prefix string
	sink   *logSink
}

type logSink struct {
	mu    sync.Mutex
	lines []string
}

func (c *capLog) WithPrefix(p string) btclog.Logger {
	return &capLog{Logger: c.Logger.WithPrefix(p), prefix: c.prefix + p, sink: c.sink}
}

func (c *capLog) Debugf(f string, a ...any) {
	if len(f) >= 8 && f[:8] == "Error in" {
		c.sink.mu.Lock()
		c.sink.lines = append(c.sink.lines, c.prefix+" "+fmt.Sprintf(f, a...))
		c.sink.mu.Unlock()
	}
}

// closeReasons returns the captured loop-exit errors whose prefix matches who
// ("(client)" or "(server)").
func (s *logSink) closeReasons(who string) []string {
	s.mu.Lock()
	defer s.mu.Unlock()
	var out []string
	for _, l := range s.lines {
		if len(l) >= len(who) && l[:len(who)] == who {
			out = append(out, l)
		}
	}
	return out
}

var baseLogger btclog.Logger

func installLog() *logSink {
	if baseLogger == nil {
		baseLogger = log
	}
	s := &logSink{}
	log = &capLog{Logger: baseLogger, sink: s}
	return s
}
