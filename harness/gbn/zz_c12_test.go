package gbn

// C12 - Close is idempotent, bounded, wakes blocked callers, tells the peer by
// a FIN when the transport still works, and leaks no goroutine or timer.

import (
	"context"
	"fmt"
	"strings"
	"sync"
	"sync/atomic"
	"time"

	"simrt"
)

func init() {
	simrt.Register(&simrt.Scenario{
		Prop: "C12", Name: "close-anytime", Count: tiered(8000, 640000),
		Run: c12Run, MaxOps: 2 << 20, Horizon: 6 * time.Hour,
		Doc: "Close invoked at a tape-chosen point of a connection's life (handshake cancelled, idle, mid-burst, full window, mid-resend / sync wait, Send/Recv blocked, a backlog of received packets that the application never reads) by either side or both at once, 1-3 concurrent callers plus repeats, over a healthy / blacked-out / stalled transport; bounded return, callers woken, peer notified, nothing left running",
	})
	simrt.Register(&simrt.Scenario{
		Prop: "C12", Name: "fin-after-resent-handshake", Count: tiered(300, 80000),
		Run: c12FinFirst, MaxOps: 1 << 20, Horizon: time.Hour,
		Doc: "the handshake needs one retransmission (the first SYN, or the first SYNACK, is lost), nothing else is lost; the first packet an endpoint gets after the handshake is the peer's FIN (the peer closes without having sent anything): its blocked Recv must fail within the FIN bound",
	})
}

// c12FinFirst: after a handshake with one timeout, is the very first packet of
// the data phase - here a FIN - really handled by the connection?
func c12FinFirst(rc *simrt.RunCtx) {
	n := []uint8{1, 3, DefaultN}[rc.Pick(3, "knob.n")]
	tk := tknobs{handshake: 300 * time.Millisecond, static: true, resend: 300 * time.Millisecond}
	keepalive := rc.Pick(2, "knob.keepalive") == 1
	if keepalive {
		tk.ping = time.Duration(5+rc.Pick(5, "knob.ping")) * time.Second
		tk.pong = 3 * time.Second
	}
	lost := []byte{SYN, SYNACK}[rc.Pick(2, "net.lost")]
	lat := time.Duration(1+rc.Pick(30, "net.lat")) * time.Millisecond
	c2s := &netCfg{latMin: lat, latMax: lat}
	s2c := &netCfg{latMin: lat, latMax: lat}
	np := newNetPair(rc, c2s, s2c)
	dropped := false
	np.c2s.filter = func(b []byte, _ time.Duration) (byte, time.Duration) {
		if !dropped && len(b) > 0 && b[0] == lost {
			dropped = true
			return 'x', 0
		}
		return 0, 0
	}
	rc.Knob("case", fmt.Sprintf("N=%d lost=%s keepalive=%v", n, pktKind([]byte{lost, 0}), keepalive))
	p := startPair(rc, np, n, []Option{WithTimeoutOptions(tk.opts()...)}, []Option{WithTimeoutOptions(tk.opts()...)})
	if !p.waitBoth(time.Minute) {
		if lost == SYNACK {
			// the client is in the data phase and silent (no keepalive):
			// the server keeps waiting for it, legitimately
			rc.Probe("c12.finfirst-server-still-waiting")
		} else {
			rc.HarnessError("handshake with a single lost SYN did not complete")
		}
		p.closeAll()
		return
	}
	cli, e1 := p.cli.get()
	srv, e2 := p.srv.get()
	if e1 != nil || e2 != nil || cli == nil || srv == nil {
		rc.Probe("c12.finfirst-handshake-failed")
		p.closeAll()
		return
	}
	// the endpoint whose handshake timed out is the one that will be told
	closer, peer, peerName := srv, cli, "client"
	if lost == SYNACK {
		closer, peer, peerName = cli, srv, "server"
	}
	var tr callTracker
	done := make(chan struct{})
	go func() {
		defer close(done)
		tr.begin()
		_, err := peer.Recv()
		tr.end(err)
	}()
	time.Sleep(time.Duration(rc.Pick(2000, "wl.close-after")) * time.Millisecond)
	tClose := rc.Now()
	closer.Close()
	rc.Fault("fin-is-first-packet")
	bound := c12Fin + 2*lat + 2*time.Second
	select {
	case <-done:
		rc.Probe("c12.finfirst-peer-told")
		rc.Progress()
	case <-time.After(bound):
		rc.Violate("c12.peer-hangs", peerName+"/first-packet-after-resent-handshake", "%v after the other side closed (healthy transport, nothing lost since the handshake's one retransmission, keepalive %v) the %s's blocked Recv has not returned (closed=%v): the FIN never reached its receive loop", rc.Now()-tClose, keepalive, peerName, isClosed(peer))
	}
	p.closeAll()
	select {
	case <-done:
	case <-time.After(time.Minute):
	}
}

const c12Fin = time.Second // default FIN send timeout of the code under test

func c12Run(rc *simrt.RunCtx) {
	var peerStallDirty atomic.Bool
	ns := []uint8{1, 2, 3, DefaultN, 254}
	n := ns[rc.Pick(len(ns), "knob.n")]
	tk := tknobs{handshake: 300 * time.Millisecond}
	if rc.Pick(2, "knob.static") == 0 {
		tk.static = true
		tk.resend = time.Duration(100+100*rc.Pick(5, "knob.resend")) * time.Millisecond
	} else {
		tk.resend = time.Second
	}
	keepalive := rc.Pick(2, "knob.keepalive") == 1
	if keepalive {
		tk.ping = time.Duration(1+rc.Pick(4, "knob.ping")) * time.Second
		tk.pong = time.Duration(1+rc.Pick(3, "knob.pong")) * time.Second
	}
	phases := []string{"handshake", "idle", "burst", "full-window", "resend", "blocked-recv", "unread-backlog", "peer-burst"}
	phase := phases[rc.Pick(len(phases), "wl.phase")]
	transports := []string{"healthy", "healthy", "blackout", "stall", "peer-stall"}
	transport := transports[rc.Pick(len(transports), "wl.transport")]
	whos := []string{"client", "server", "both"}
	who := whos[rc.Pick(len(whos), "wl.who")]
	callers := 1 + rc.Pick(3, "wl.callers")
	if transport == "peer-stall" && who == "both" {
		transport = "healthy"
	}
	rc.Knob("N", n)
	rc.Knob("timeouts", tk)
	rc.Knob("phase", phase)
	rc.Knob("transport", transport)
	rc.Knob("who", who)
	rc.Sample("N=%d %v phase=%s transport=%s who=%s callers=%d", n, tk, phase, transport, who, callers)

	lat := time.Duration(1+rc.Pick(30, "net.lat")) * time.Millisecond
	c2s := &netCfg{latMin: lat, latMax: lat}
	s2c := &netCfg{latMin: lat, latMax: lat}
	np := newNetPair(rc, c2s, s2c)
	opts := []Option{WithTimeoutOptions(tk.opts()...)}

	ctx, cancel := context.WithCancel(context.Background())
	defer cancel()
	var cli, srv *GoBackNConn
	var e1, e2 error
	hs := make(chan struct{}, 2)
	go func() {
		srv, e2 = NewServerConn(ctx, np.s2c.send, np.c2s.recv, opts...)
		hs <- struct{}{}
	}()
	go func() {
		cli, e1 = NewClientConn(ctx, n, np.c2s.send, np.s2c.recv, opts...)
		hs <- struct{}{}
	}()
	if phase == "handshake" {
		// the only way to "close during the handshake" is to cancel the
		// constructor's context; whatever it returns is then closed
		if rc.Pick(2, "hs.lossy") == 1 {
			np.c2s.mu.Lock()
			c2s.dropPm = 400
			np.c2s.mu.Unlock()
		}
		time.Sleep(time.Duration(rc.Pick(700, "hs.cancel-at")) * time.Millisecond)
		cancel()
		rc.Fault("cancel-during-handshake")
	}
	for i := 0; i < 2; i++ {
		select {
		case <-hs:
		case <-time.After(2 * time.Minute):
			rc.Violate("c12.constructor-hangs", phase, "a constructor did not return within 2 virtual minutes (context cancelled: %v)", phase == "handshake")
			return
		}
	}
	if phase != "handshake" && (e1 != nil || e2 != nil || cli == nil || srv == nil) {
		rc.HarnessError("fault-free handshake failed: %v %v", e1, e2)
		return
	}

	// ---- application calls in flight -----------------------------------
	var trC, trS callTracker
	var wg sync.WaitGroup
	recvLoop := func(g *GoBackNConn, tr *callTracker) {
		if g == nil {
			return
		}
		wg.Add(1)
		go func() {
			defer wg.Done()
			for {
				tr.begin()
				_, err := g.Recv()
				tr.end(err)
				if err != nil {
					return
				}
			}
		}()
	}
	sendLoop := func(g *GoBackNConn, tr *callTracker, dir byte, m int) {
		if g == nil {
			return
		}
		wg.Add(1)
		go func() {
			defer wg.Done()
			for i := 0; i < m; i++ {
				tr.begin()
				err := g.Send(mkMsg(dir, i, 16))
				tr.end(err)
				if err != nil {
					return
				}
			}
		}()
	}
	recvLoop(cli, &trC)
	if phase != "unread-backlog" {
		recvLoop(srv, &trS)
	}
	ackBlackout := func() {
		np.s2c.mu.Lock()
		np.s2c.filter = func(b []byte, _ time.Duration) (byte, time.Duration) {
			if len(b) > 0 && (b[0] == ACK || b[0] == NACK) {
				return 'x', 0
			}
			return 0, 0
		}
		np.s2c.mu.Unlock()
	}
	switch phase {
	case "burst":
		sendLoop(cli, &trC, 'A', 20+rc.Pick(200, "wl.burst"))
		if rc.Pick(2, "wl.bidir") == 1 {
			sendLoop(srv, &trS, 'B', 20+rc.Pick(200, "wl.burstb"))
		}
		time.Sleep(time.Duration(rc.Pick(300, "wl.close-after")) * time.Millisecond)
	case "full-window":
		ackBlackout()
		sendLoop(cli, &trC, 'A', int(n)+1+rc.Pick(3, "wl.extra"))
		time.Sleep(time.Duration(50+rc.Pick(3000, "wl.close-after")) * time.Millisecond)
	case "resend":
		ackBlackout()
		sendLoop(cli, &trC, 'A', 1+rc.Pick(int(n), "wl.msgs"))
		// land inside a resend or the sync wait that follows it
		time.Sleep(tk.resend + time.Duration(rc.Pick(int(4*tk.resend/time.Millisecond), "wl.close-after"))*time.Millisecond)
	case "idle", "blocked-recv":
		time.Sleep(time.Duration(rc.Pick(9000, "wl.close-after")) * time.Millisecond)
	case "peer-burst":
		// only the side that is NOT going to close sends, and keeps sending:
		// its send loop is busy (and, with the peer-stall transport, blocked
		// inside the send callback) when the other side's FIN arrives
		think := time.Duration(1+rc.Pick(20, "wl.think")) * time.Millisecond
		slow := func(g *GoBackNConn, tr *callTracker, dir byte) {
			if g == nil {
				return
			}
			wg.Add(1)
			go func() {
				defer wg.Done()
				for i := 0; ; i++ {
					tr.begin()
					err := g.Send(mkMsg(dir, i, 16))
					tr.end(err)
					if err != nil {
						return
					}
					time.Sleep(think)
				}
			}()
		}
		if who == "client" {
			slow(srv, &trS, 'B')
		} else {
			slow(cli, &trC, 'A')
		}
		time.Sleep(time.Duration(rc.Pick(1500, "wl.close-after")) * time.Millisecond)
	case "unread-backlog":
		// the server application does not call Recv while the client sends
		// more than a window of messages: the server's receive loop sits
		// on packets nobody takes
		sendLoop(cli, &trC, 'A', int(n)+2+rc.Pick(5, "wl.extra"))
		time.Sleep(time.Duration(50+rc.Pick(3000, "wl.close-after")) * time.Millisecond)
	}

	// ---- transport condition at the moment of Close ---------------------
	tClose := rc.Now()
	switch transport {
	case "blackout":
		w := window{tClose, 1 << 62}
		np.c2s.mu.Lock()
		c2s.blackouts = append(c2s.blackouts, w)
		np.c2s.mu.Unlock()
		np.s2c.mu.Lock()
		s2c.blackouts = append(s2c.blackouts, w)
		np.s2c.mu.Unlock()
		rc.Fault("blackout-at-close")
	case "stall":
		// the send callback of the closing endpoint(s) blocks until its
		// context is cancelled (a full mailbox): the FIN cannot get out
		if who == "client" || who == "both" {
			np.c2s.mu.Lock()
			np.c2s.stallUntil = 1 << 62
			np.c2s.mu.Unlock()
		}
		if who == "server" || who == "both" {
			np.s2c.mu.Lock()
			np.s2c.stallUntil = 1 << 62
			np.s2c.mu.Unlock()
		}
		if rc.Pick(2, "net.serial-sender") == 1 {
			// ... and the callback serialises its callers: the FIN's send
			// has to wait behind the blocked one, whatever its own deadline
			for _, l := range []*link{np.c2s, np.s2c} {
				l.mu.Lock()
				l.serial = true
				l.mu.Unlock()
			}
			rc.Fault("serialised-send-callback")
		}
		rc.Fault("stall-at-close")
		// let the stall begin a little before Close, so that Close can land
		// while a (re)transmission is blocked inside the send callback
		if lead := rc.Pick(4, "wl.stall-lead"); lead > 0 {
			time.Sleep(time.Duration(lead) * tk.resend)
			tClose = rc.Now()
		}
	case "peer-stall":
		// the send callback of the endpoint that is NOT closing blocks until
		// its context is cancelled, while the closer's FIN still reaches it:
		// the peer's send loop may sit inside the callback (a data packet, a
		// retransmission, a ping) when its receive loop reads the FIN
		pl, cl := np.s2c, np.c2s // peer's outgoing link, closer's outgoing link
		if who == "server" {
			pl, cl = np.c2s, np.s2c
		}
		if phase == "idle" || phase == "blocked-recv" || phase == "peer-burst" {
			// (these phases install no other filter) remember whether the
			// closer sent DATA - a ping - after the stall began: the peer's
			// receive loop then blocks in the stalled send of the ACK and
			// cannot read the FIN
			cl.mu.Lock()
			cl.filter = func(b []byte, _ time.Duration) (byte, time.Duration) {
				if len(b) > 0 && b[0] == DATA {
					peerStallDirty.Store(true)
				}
				return 0, 0
			}
			cl.mu.Unlock()
			// DATA the closer sent before this instant is delivered - and
			// acknowledged by the peer - within two latencies: only then does
			// the stall begin (found by the thorough tier: a ping sent 3 ms
			// before the stall was delivered after it began, the peer's
			// receive loop blocked in the stalled ACK and never read the FIN)
			time.Sleep(2*lat + time.Millisecond)
		} else {
			peerStallDirty.Store(true)
		}
		pl.mu.Lock()
		pl.stallUntil = 1 << 62
		pl.mu.Unlock()
		tClose = rc.Now()
		rc.Fault("peer-stall-at-close")
		if lead := rc.Pick(4, "wl.stall-lead"); lead > 0 {
			time.Sleep(time.Duration(lead) * tk.resend)
			tClose = rc.Now()
		}
	}

	// ---- Close, concurrently and repeatedly ------------------------------
	type closeRes struct {
		who string
		d   time.Duration
	}
	results := make(chan closeRes, 16)
	closers := 0
	closeOn := func(name string, g *GoBackNConn) {
		if g == nil {
			return
		}
		for i := 0; i < callers; i++ {
			closers++
			go func() {
				start := rc.Now()
				g.Close()
				results <- closeRes{name, rc.Now() - start}
			}()
		}
	}
	if who == "client" || who == "both" {
		closeOn("client", cli)
	}
	if who == "server" || who == "both" {
		closeOn("server", srv)
	}
	closeBound := c12Fin + 2*time.Second
	for i := 0; i < closers; i++ {
		select {
		case r := <-results:
			if r.d > closeBound {
				rc.Violate("c12.close-slow", phase+"/"+transport, "%s Close took %v (bound %v)", r.who, r.d, closeBound)
			}
		case <-time.After(closeBound + 10*time.Second):
			rc.Violate("c12.close-hangs", phase+"/"+transport, "a Close call has not returned %v after it was invoked (phase %s, transport %s, who %s)", rc.Now()-tClose, phase, transport, who)
			i = closers
		}
	}
	if rc.Failed() {
		return
	}
	// the closing endpoint's own calls: blocked ones woken, new ones refused
	local := func(name string, g *GoBackNConn, tr *callTracker) {
		if g == nil || rc.Failed() {
			return
		}
		if pn := tr.pending(); pn > 0 {
			// give the woken callers the scheduling steps to return
			time.Sleep(100 * time.Millisecond)
			pn = tr.pending()
			if pn > 0 {
				rc.Violate("c12.local-calls-hang", name+"/"+phase, "%d application calls on the %s are still blocked after its Close returned", pn, name)
				return
			}
		}
		if g.Send([]byte("late")) == nil {
			rc.Violate("c12.local-calls-hang", name+"/send-after-close", "Send succeeded on the %s after Close returned", name)
		}
		if _, err := g.Recv(); err == nil {
			rc.Violate("c12.local-calls-hang", name+"/recv-after-close", "Recv succeeded on the %s after Close returned", name)
		}
		g.Close() // repeated Close
	}
	if who == "client" || who == "both" {
		local("client", cli, &trC)
	}
	if who == "server" || who == "both" {
		local("server", srv, &trS)
	}
	// the peer: told by a FIN when the transport still works
	peer := func(name string, g *GoBackNConn, tr *callTracker) {
		if g == nil || rc.Failed() {
			return
		}
		var bound time.Duration
		switch {
		case transport == "peer-stall" && peerStallDirty.Load():
			// its receive loop may be blocked in its own stalled send callback
			// (the ACK of a ping): nothing can tell it
			rc.Probe("c12.peer-stalled-receive-loop")
			return
		case transport == "healthy" || transport == "peer-stall":
			bound = tClose + c12Fin + 2*lat + 2*time.Second
		case keepalive:
			bound = tClose + 3*(tk.ping+tk.pong) + 20*g.timeoutManager.GetResendTimeout() + 10*time.Second
		default:
			// dead transport and no keepalive: nothing can tell the peer
			rc.Probe("c12.peer-uninformed-by-design")
			return
		}
		if phase == "unread-backlog" && name == "server" {
			// its application has not been reading: the FIN sits behind
			// the unread packets. The property speaks about its calls:
			// reading now must drain the backlog and then fail, not hang.
			recvLoop(g, tr)
		}
		for rc.Now() < bound && !(isClosed(g) && tr.pending() == 0) {
			time.Sleep(50 * time.Millisecond)
		}
		closed, pn := isClosed(g), tr.pending()
		if closed && pn > 0 {
			// a call that is just returning its error is still counted for
			// an instant; look again
			time.Sleep(200 * time.Millisecond)
			pn = tr.pending()
		}
		if !closed || pn > 0 {
			rc.Violate("c12.peer-hangs", name+"/"+phase+"/"+transport, "%v after the other side closed (transport %s, keepalive %v) the %s is closed=%v with %d application calls still blocked", rc.Now()-tClose, transport, keepalive, name, closed, pn)
			return
		}
		rc.Probe("c12.peer-notified")
	}
	if who == "client" {
		peer("server", srv, &trS)
	}
	if who == "server" {
		peer("client", cli, &trC)
	}
	if rc.Failed() {
		return
	}
	// ---- nothing may be left running -----------------------------------
	// (one more Close on each endpoint; for the peer it is the application's
	// own Close after the other side's FIN - it must return like any other)
	finalDone := make(chan struct{}, 2)
	finals := 0
	for _, g := range []*GoBackNConn{cli, srv} {
		if g == nil {
			continue
		}
		g := g
		finals++
		go func() { g.Close(); finalDone <- struct{}{} }()
	}
	for i := 0; i < finals; i++ {
		select {
		case <-finalDone:
		case <-time.After(closeBound + 10*time.Second):
			rc.Violate("c12.close-hangs", "final/"+phase+"/"+transport, "a Close call on an endpoint (after the other side had closed: who=%s) has not returned within %v", who, closeBound+10*time.Second)
			return
		}
	}
	cancel()
	wdone := make(chan struct{})
	go func() { wg.Wait(); close(wdone) }()
	select {
	case <-wdone:
	case <-time.After(time.Minute):
		rc.Violate("c12.local-calls-hang", "after-both-closed", "application calls still blocked a virtual minute after both endpoints were closed")
		return
	}
	time.Sleep(5 * time.Second)
	var leaked []string
	for _, l := range simrt.Live() {
		if strings.HasPrefix(l, "zz_") || strings.HasPrefix(l, "main") {
			continue
		}
		leaked = append(leaked, l)
	}
	if len(leaked) > 0 {
		site := leaked[0]
		if k := strings.Index(site, "@"); k > 0 {
			site = site[:k]
		}
		rc.Violate("c12.leak", site, "%d goroutine(s) of the connection still alive 5 virtual seconds after both endpoints were closed: %v", len(leaked), leaked)
		return
	}
	var ticking []string
	for _, t := range simrt.TickingTickers(time.Hour) {
		if !strings.HasPrefix(t, "zz_") {
			ticking = append(ticking, t)
		}
	}
	if len(ticking) > 0 {
		rc.Violate("c12.leak", "ticker "+ticking[0], "ticker(s) created at %v still tick after both endpoints were closed", ticking)
		return
	}
	rc.Progress()
	rc.Fault(fmt.Sprintf("close/%s/%s/%s", phase, transport, who))
}
