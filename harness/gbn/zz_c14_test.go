package gbn

// C14 - message boundaries and contents survive chunking for every payload
// length and every chunk size: each successful Send yields exactly one Recv
// result with identical bytes; nothing is merged, split or dropped - also
// when a receive or send deadline expires inside a message and the call is
// retried.

import (
	"errors"
	"fmt"
	"sync"
	"time"

	"simrt"
)

var c14Ms = []int{0, 1, 2, 3, 4, 5}
var c14Ns = []uint8{1, 2, DefaultN}

func init() {
	simrt.Register(&simrt.Scenario{
		Prop: "C14", Name: "sizes-exhaustive", Enumerated: true, Count: fixed(len(c14Ms) * len(c14Ns)),
		Run: c14Exhaustive, MaxOps: 8 << 20, Horizon: 4 * time.Hour,
		Doc: "per (maxChunkSize M in 0..5, window N in {1,2,20}): every payload length 0..3M+1 as a single message and every ordered pair of such lengths, fault-free transport",
	})
	simrt.Register(&simrt.Scenario{
		Prop: "C14", Name: "sizes-random", Count: tiered(2000, 240000),
		Run: c14Random, MaxOps: 4 << 20, Horizon: 4 * time.Hour,
		Doc: "random payloads up to 256 KiB, chunk sizes up to 64 KiB or off, sequences of messages, with and without transport faults",
	})
	simrt.Register(&simrt.Scenario{
		Prop: "C14", Name: "deadlines", Count: tiered(5000, 400000),
		Run: c14Deadlines, MaxOps: 4 << 20, Horizon: 4 * time.Hour,
		Doc: "multi-chunk messages with a receive or send deadline placed at (around) every chunk boundary; the timed-out call is retried",
	})
}

// payload with arbitrary length (also < 9): bytes are a function of (tag, len, i)
func c14Payload(tag int, l int) []byte {
	b := make([]byte, l)
	x := uint64(tag)*0x9e3779b97f4a7c15 + uint64(l)*0xbf58476d1ce4e5b9 + 1
	for i := range b {
		x ^= x << 13
		x ^= x >> 7
		x ^= x << 17
		b[i] = byte(x)
	}
	return b
}

func c14Pair(rc *simrt.RunCtx, n uint8, m int, faults bool, tk tknobs) (*connPair, *GoBackNConn, *GoBackNConn, bool) {
	var c2s, s2c *netCfg
	if faults {
		c2s, s2c = swarmNet(rc, "net.c2s", tk.resend), swarmNet(rc, "net.s2c", tk.resend)
	} else {
		c2s = &netCfg{latMin: time.Millisecond, latMax: 2 * time.Millisecond}
		s2c = &netCfg{latMin: time.Millisecond, latMax: 2 * time.Millisecond}
	}
	np := newNetPair(rc, c2s, s2c)
	opts := []Option{WithTimeoutOptions(tk.opts()...)}
	if m > 0 {
		opts = append(opts, WithMaxSendSize(m))
	}
	p := startPair(rc, np, n, opts, opts)
	if !p.waitBoth(5 * time.Minute) {
		p.closeAll()
		return nil, nil, nil, false
	}
	cli, e1 := p.cli.get()
	srv, e2 := p.srv.get()
	if e1 != nil || e2 != nil {
		p.closeAll()
		return nil, nil, nil, false
	}
	return p, cli, srv, true
}

// c14Transfer sends the given messages client->server and compares the Recv
// results one by one with the messages whose Send returned nil.
func c14Transfer(rc *simrt.RunCtx, cli, srv *GoBackNConn, msgs [][]byte, what string, faults bool, readerLag func() time.Duration) bool {
	var mu sync.Mutex
	accepted := 0
	sdone := make(chan struct{})
	go func() {
		defer close(sdone)
		// sometimes the application sends every message from one scratch
		// buffer that it refills as soon as Send has returned
		var scratch []byte
		reuse := rc.Pick(3, "wl.reuse-send-buffer") == 0
		if reuse {
			rc.Probe("c14.send-buffer-reused")
		}
		for _, m := range msgs {
			buf := m
			if reuse {
				if cap(scratch) < len(m) {
					scratch = make([]byte, len(m), 2*len(m)+16)
				}
				scratch = scratch[:len(m)]
				copy(scratch, m)
				buf = scratch
			}
			if err := cli.Send(buf); err != nil {
				return
			}
			if reuse {
				// what the caller does with its buffer after a successful
				// Send is the caller's business
				for i := range scratch {
					scratch[i] = 0xEE
				}
			}
			mu.Lock()
			accepted++
			mu.Unlock()
		}
	}()
	srv.SetRecvTimeout(2 * time.Minute)
	if faults {
		srv.SetRecvTimeout(time.Hour)
	}
	for i := 0; i < len(msgs); i++ {
		if readerLag != nil {
			if d := readerLag(); d > 0 {
				time.Sleep(d)
			}
		}
		b, err := srv.Recv()
		if err != nil {
			mu.Lock()
			acc := accepted
			mu.Unlock()
			if errors.Is(err, errRecvTimeout) && acc > i && !faults {
				cause := "message-never-delivered"
				if len(msgs[i]) == 0 {
					cause = "empty-message-never-delivered"
				}
				rc.Violate("c14.boundaries", cause, "%s: Send #%d (%d bytes) returned nil but no Recv result arrived for it within 2 virtual minutes on a fault-free transport", what, i, len(msgs[i]))
				return false
			}
			return false
		}
		if !eqBytes(b, msgs[i]) {
			cause := "recv-differs"
			if i > 0 && len(msgs[i-1]) == 0 || len(msgs[i]) == 0 {
				cause = "recv-differs-near-empty-message"
			}
			rc.Violate("c14.boundaries", cause, "%s: Recv #%d returned %d bytes [%s], the %d-th sent message has %d bytes [%s]", what, i, len(b), simrt.Hex(b, 12), i, len(msgs[i]), simrt.Hex(msgs[i], 12))
			return false
		}
		rc.Progress()
	}
	<-sdone
	return true
}

func c14Exhaustive(rc *simrt.RunCtx) {
	m := c14Ms[rc.Idx()%len(c14Ms)]
	n := c14Ns[(rc.Idx()/len(c14Ms))%len(c14Ns)]
	maxL := 3*m + 1
	if m == 0 {
		maxL = 16
	}
	rc.Knob("M", m)
	rc.Knob("N", n)
	tk := tknobs{handshake: 200 * time.Millisecond, static: true, resend: 200 * time.Millisecond}
	p, cli, srv, ok := c14Pair(rc, n, m, false, tk)
	if !ok {
		rc.HarnessError("fault-free handshake failed")
		return
	}
	defer p.closeAll()
	var msgs [][]byte
	tag := 0
	for l := 0; l <= maxL; l++ {
		msgs = append(msgs, c14Payload(tag, l))
		tag++
	}
	for a := 0; a <= maxL; a++ {
		for b := 0; b <= maxL; b++ {
			msgs = append(msgs, c14Payload(tag, a), c14Payload(tag+1, b))
			tag += 2
		}
	}
	rc.Sample("M=%d N=%d lengths 0..%d: %d singles + %d ordered pairs = %d messages", m, n, maxL, maxL+1, (maxL+1)*(maxL+1), len(msgs))
	if c14Transfer(rc, cli, srv, msgs, fmt.Sprintf("M=%d N=%d", m, n), false, nil) {
		rc.ProbeN("c14.messages", len(msgs))
	}
	rc.Fault(fmt.Sprintf("enumerated-M=%d-N=%d", m, n))
}

func c14Random(rc *simrt.RunCtx) {
	ns := []uint8{1, 3, DefaultN, 254}
	n := ns[rc.Pick(len(ns), "knob.n")]
	ms := []int{0, 1, 7, 100, 1000, 32 * 1024, 64 * 1024}
	m := ms[rc.Pick(len(ms), "knob.m")]
	faults := rc.Pick(2, "knob.faults") == 1
	tk := tknobs{handshake: 300 * time.Millisecond, static: true, resend: time.Duration(100+100*rc.Pick(3, "knob.resend")) * time.Millisecond}
	if rc.Pick(2, "knob.keepalive") == 1 {
		// keepalive pings share the window and the sequence space with the chunks
		tk.ping = time.Duration(100+100*rc.Pick(8, "knob.ping")) * time.Millisecond
		tk.pong = time.Minute
	}
	rc.Knob("M", m)
	rc.Knob("N", n)
	rc.Knob("timeouts", tk)
	p, cli, srv, ok := c14Pair(rc, n, m, faults, tk)
	if !ok {
		rc.Probe("c14.handshake-failed")
		return
	}
	defer p.closeAll()
	count := 1 + rc.Pick(12, "wl.count")
	var msgs [][]byte
	budget := 3000 // packets
	for i := 0; i < count; i++ {
		var l int
		switch rc.Pick(6, "wl.kind") {
		case 0:
			l = 0
		case 1:
			l = 1
		case 2:
			if m > 0 {
				l = m * (1 + rc.Pick(4, "wl.mult")) // exact multiple
			} else {
				l = rc.Pick(100, "wl.len")
			}
		case 3:
			if m > 0 {
				l = m*(1+rc.Pick(4, "wl.mult")) + 1 - 2*rc.Pick(2, "wl.pm") // multiple +-1
			} else {
				l = rc.Pick(5000, "wl.len")
			}
		case 4:
			l = rc.Pick(70000, "wl.len")
		case 5:
			l = rc.Pick(256*1024, "wl.len")
		}
		if l < 0 {
			l = 0
		}
		if m > 0 {
			pk := l/m + 1
			if pk > budget {
				l = m * budget / 2
				pk = budget/2 + 1
			}
			budget -= pk
			if budget < 10 {
				budget = 10
			}
		}
		msgs = append(msgs, c14Payload(i, l))
	}
	rc.Sample("M=%d N=%d faults=%v %d messages, first lengths %v", m, n, faults, len(msgs), lens(msgs, 6))
	// a reader that lags: more than a window of chunks waits for it, for
	// longer than the resend timeout
	var lag func() time.Duration
	readerMode := rc.Pick(4, "wl.reader")
	switch readerMode {
	case 1:
		lag = func() time.Duration {
			if simrt.Pm(150, "wl.rlag") {
				return time.Duration(1+simrt.Choose(60, "wl.rlaglen")) * time.Millisecond
			}
			return 0
		}
	case 2:
		lag = func() time.Duration {
			if simrt.Pm(300, "wl.rlag") {
				return tk.resend * time.Duration(1+simrt.Choose(12, "wl.rlagx"))
			}
			return 0
		}
	}
	rc.Knob("reader", readerMode)
	c14Transfer(rc, cli, srv, msgs, fmt.Sprintf("M=%d N=%d faults=%v", m, n, faults), faults, lag)
}

func lens(msgs [][]byte, k int) []int {
	var out []int
	for i, m := range msgs {
		if i >= k {
			break
		}
		out = append(out, len(m))
	}
	return out
}

func c14Deadlines(rc *simrt.RunCtx) {
	n := uint8(1 + rc.Pick(3, "knob.n"))
	m := 1 + rc.Pick(12, "knob.m")
	chunks := 2 + rc.Pick(6, "knob.chunks")
	side := "recv"
	if rc.Pick(3, "knob.side") == 2 {
		side = "send"
	}
	rc.Knob("M", m)
	rc.Knob("N", n)
	rc.Knob("side", side)
	tk := tknobs{handshake: 200 * time.Millisecond, static: true, resend: 400 * time.Millisecond}
	// a slow link makes the chunks of one message arrive spread over time, so
	// that a deadline can expire between any two of them
	lat := time.Duration(5+rc.Pick(30, "net.lat")) * time.Millisecond
	np := newNetPair(rc, &netCfg{latMin: lat, latMax: lat}, &netCfg{latMin: lat, latMax: lat})
	opts := []Option{WithTimeoutOptions(tk.opts()...), WithMaxSendSize(m)}
	p := startPair(rc, np, n, opts, opts)
	if !p.waitBoth(time.Minute) {
		rc.HarnessError("handshake did not complete")
		p.closeAll()
		return
	}
	cli, e1 := p.cli.get()
	srv, e2 := p.srv.get()
	if e1 != nil || e2 != nil {
		rc.HarnessError("handshake failed")
		p.closeAll()
		return
	}
	defer p.closeAll()
	// three messages: the middle one is the multi-chunk message the deadline hits
	l := m*(chunks-1) + 1 + rc.Pick(m, "wl.lastchunk")
	msgs := [][]byte{c14Payload(1, 1+rc.Pick(2*m, "wl.l0")), c14Payload(2, l), c14Payload(3, 1+rc.Pick(2*m, "wl.l2"))}
	// the deadline: a tape-chosen instant within the time the message needs
	// (with window N, chunks go out N per round trip)
	rounds := (chunks + int(n) - 1) / int(n)
	span := time.Duration(rounds+1) * 2 * lat
	dl := time.Duration(rc.Pick(int(span/time.Millisecond)+1, "wl.deadline")) * time.Millisecond
	// sometimes the application is slow to call Recv, so that chunks are
	// already queued when a (tiny) deadline starts: the deadline then expires
	// at the very instant a chunk is ready
	lag := time.Duration(0)
	if side == "recv" && rc.Pick(3, "wl.lag") == 0 {
		lag = time.Duration(rc.Pick(int(span/time.Millisecond)+1, "wl.lagms")) * time.Millisecond
		dl = []time.Duration{0, time.Nanosecond, time.Microsecond, time.Millisecond}[rc.Pick(4, "wl.tiny")]
	}
	rc.Sample("M=%d N=%d %s deadline %v into a %d-chunk message of %d bytes (one-way latency %v)", m, n, side, dl, chunks, l, lat)

	var mu sync.Mutex
	var sent [][]byte // messages whose Send returned nil, in order
	sendErr := 0
	sdone := make(chan struct{})
	go func() {
		defer close(sdone)
		for i, msg := range msgs {
			for try := 0; try < 50; try++ {
				if i == 1 && side == "send" && try == 0 {
					cli.SetSendTimeout(dl)
				} else {
					cli.SetSendTimeout(time.Hour)
				}
				err := cli.Send(msg)
				if err == nil {
					mu.Lock()
					sent = append(sent, msg)
					mu.Unlock()
					break
				}
				if !errors.Is(err, errSendTimeout) {
					return
				}
				mu.Lock()
				sendErr++
				mu.Unlock()
				rc.Fault("send-deadline-expired")
			}
		}
	}()
	var got [][]byte
	recvTimeouts := 0
	tinyRepeats := 0
	if lag > 0 {
		tinyRepeats = rc.Pick(4, "wl.tinyrepeats") // poll several times with the tiny deadline
	}
	for len(got) < len(msgs) {
		if len(got) == 1 && side == "recv" && recvTimeouts < 1+tinyRepeats {
			if recvTimeouts == 0 && lag > 0 {
				time.Sleep(lag)
			}
			srv.SetRecvTimeout(dl)
		} else {
			srv.SetRecvTimeout(30 * time.Second)
		}
		b, err := srv.Recv()
		if err != nil {
			if errors.Is(err, errRecvTimeout) {
				recvTimeouts++
				rc.Fault("recv-deadline-expired")
				if recvTimeouts > 9 {
					break
				}
				continue
			}
			break
		}
		got = append(got, b)
	}
	select {
	case <-sdone:
	case <-time.After(5 * time.Minute):
	}
	mu.Lock()
	defer mu.Unlock()
	cause := side + "-deadline-mid-message"
	for i := range got {
		if i >= len(sent) {
			rc.Violate("c14.deadline", cause, "Recv #%d returned %d bytes but only %d Sends succeeded (%s deadline %v expired %d times)", i, len(got[i]), len(sent), side, dl, sendErr+recvTimeouts)
			return
		}
		if !eqBytes(got[i], sent[i]) {
			rc.Violate("c14.deadline", cause, "after a %s deadline of %v expired inside a %d-chunk message and the call was retried, Recv #%d returned %d bytes [%s] but the %d-th successful Send carried %d bytes [%s]",
				side, dl, chunks, i, len(got[i]), simrt.Hex(got[i], 10), i, len(sent[i]), simrt.Hex(sent[i], 10))
			return
		}
	}
	if len(got) < len(sent) {
		rc.Violate("c14.deadline", cause+"/lost", "%d Sends succeeded but only %d Recv results arrived (%s deadline %v expired %d times)", len(sent), len(got), side, dl, sendErr+recvTimeouts)
		return
	}
	if sendErr+recvTimeouts > 0 {
		rc.Probe("c14.deadline-hit-" + side)
	}
	rc.Progress()
}
