package gbn

// Simulated packet transport under GBN: a pair of per-direction FIFO links
// with per-packet drop, adjacent duplication and delay, blackouts, stalls and
// scripted overlays. Order within a direction is always kept (a delayed
// packet delays those behind it). Every decision comes from the run's tape.

import (
	"context"
	"fmt"
	"sync"
	"time"

	"simrt"
)

type pkt struct {
	b  []byte
	at time.Duration // virtual delivery time (since run start)
}

type window struct{ from, to time.Duration }

type netCfg struct {
	dropPm   int
	dupPm    int
	latMin   time.Duration
	latMax   time.Duration
	bigLatPm int
	bigLat   time.Duration
	// faultsUntil: virtual instant after which the link is reliable with
	// latency healLat (0 = faults never stop).
	faultsUntil time.Duration
	healLat     time.Duration
	blackouts   []window
}

type wireEv struct {
	t    time.Duration
	kind byte // 's' offered by sender, 'x' dropped, 'd' delivered, 'i' injected
	b    []byte
}

type link struct {
	name string
	rc   *simrt.RunCtx
	cfg  *netCfg

	mu     sync.Mutex
	q      []pkt
	wakeup chan struct{}
	lastAt time.Duration
	log    []wireEv
	keep   bool // keep the wire log

	// filter is a scripted overlay consulted before the random faults:
	// it may drop ("x"), duplicate ("2"), delay or pass a packet.
	filter func(b []byte, now time.Duration) (verdict byte, extra time.Duration)
	// stall makes send block until the given instant (a full mailbox).
	stallUntil time.Duration
	// tap sees every delivered packet just before it is handed over.
	tap func(b []byte)
	// onSend sees every packet the endpoint offers, before any fault.
	onSend func(b []byte)
	// recvErr: the next recv call (or the one that is blocked right now)
	// returns this error once (a transport that reports a failure).
	recvErr error
	// sendLag: the send callback returns only this long after the packet is
	// on its way (a transport whose write call completes late).
	sendLag time.Duration
	// serial: the send callback serialises its callers with a mutex that it
	// holds for the whole call (as the mailbox connections do): a second
	// send waits for the first one whatever its own context says.
	serial   bool
	serialMu sync.Mutex

	nSent, nDrop, nDup, nDeliv, nDelay int
}

func newLink(rc *simrt.RunCtx, name string, cfg *netCfg) *link {
	return &link{name: name, rc: rc, cfg: cfg, wakeup: make(chan struct{}, 1)}
}

func (l *link) record(kind byte, b []byte) {
	if l.keep {
		l.log = append(l.log, wireEv{l.rc.Now(), kind, b})
	}
}

func (l *link) inBlackout(now time.Duration) bool {
	for _, w := range l.cfg.blackouts {
		if now >= w.from && now < w.to {
			return true
		}
	}
	return false
}

func (l *link) enqueue(b []byte, at time.Duration) {
	if at < l.lastAt {
		at = l.lastAt
	}
	l.lastAt = at
	l.q = append(l.q, pkt{b, at})
}

// inject places a packet on the link as if the peer had sent it (C07, C10).
func (l *link) inject(b []byte, lat time.Duration) {
	l.mu.Lock()
	l.record('i', b)
	l.enqueue(append([]byte(nil), b...), l.rc.Now()+lat)
	l.mu.Unlock()
	select {
	case l.wakeup <- struct{}{}:
	default:
	}
}

func (l *link) send(ctx context.Context, b []byte) error {
	cp := append([]byte(nil), b...)
	l.mu.Lock()
	serial := l.serial
	l.mu.Unlock()
	if serial {
		l.serialMu.Lock()
		defer l.serialMu.Unlock()
	}
	now := l.rc.Now()
	l.mu.Lock()
	stall := l.stallUntil
	onSend := l.onSend
	l.mu.Unlock()
	if onSend != nil {
		onSend(cp)
	}
	if stall > now {
		l.rc.Fault("send-stall")
		select {
		case <-time.After(stall - now):
		case <-ctx.Done():
			return ctx.Err()
		}
		now = l.rc.Now()
	}
	select {
	case <-ctx.Done():
		return ctx.Err()
	default:
	}
	if lag := l.lagOf(); lag > 0 {
		defer func() {
			select {
			case <-time.After(lag):
			case <-ctx.Done():
			}
		}()
	}
	l.mu.Lock()
	defer l.mu.Unlock()
	l.nSent++
	l.record('s', cp)
	cfg := l.cfg
	healed := cfg.faultsUntil != 0 && now >= cfg.faultsUntil
	copies := 1
	var lat time.Duration
	if healed {
		lat = cfg.healLat
	} else {
		if l.filter != nil {
			v, extra := l.filter(cp, now)
			switch v {
			case 'x':
				l.nDrop++
				l.rc.Fault("scripted-drop")
				l.record('x', cp)
				simrt.Note("%s DROP(script) %s", l.name, pktString(cp))
				return nil
			case '2':
				copies = 2
				l.rc.Fault("scripted-dup")
			}
			if extra > 0 {
				lat += extra
				l.rc.Fault("scripted-delay")
			}
		}
		if l.inBlackout(now) {
			l.nDrop++
			l.rc.Fault("blackout-drop")
			l.record('x', cp)
			simrt.Note("%s DROP(blackout) %s", l.name, pktString(cp))
			return nil
		}
		if simrt.Pm(cfg.dropPm, "net.drop") {
			l.nDrop++
			l.rc.Fault("drop")
			l.record('x', cp)
			simrt.Note("%s DROP %s", l.name, pktString(cp))
			return nil
		}
		if simrt.Pm(cfg.dupPm, "net.dup") {
			copies = 2
			l.nDup++
			l.rc.Fault("dup")
		}
		lat += cfg.latMin
		if cfg.latMax > cfg.latMin {
			steps := int((cfg.latMax - cfg.latMin) / time.Millisecond)
			lat += time.Duration(simrt.Choose(steps+1, "net.lat")) * time.Millisecond
		}
		if simrt.Pm(cfg.bigLatPm, "net.biglat") {
			lat += cfg.bigLat
			l.nDelay++
			l.rc.Fault("delay")
		}
	}
	for i := 0; i < copies; i++ {
		l.enqueue(cp, now+lat)
	}
	simrt.Note("%s SEND %s x%d lat=%v", l.name, pktString(cp), copies, lat)
	select {
	case l.wakeup <- struct{}{}:
	default:
	}
	return nil
}

func (l *link) failRecv(err error) {
	l.mu.Lock()
	l.recvErr = err
	l.mu.Unlock()
	select {
	case l.wakeup <- struct{}{}:
	default:
	}
}

func (l *link) recv(ctx context.Context) ([]byte, error) {
	for {
		l.mu.Lock()
		if err := l.recvErr; err != nil {
			l.recvErr = nil
			l.mu.Unlock()
			l.rc.Fault("transport-recv-error")
			return nil, err
		}
		now := l.rc.Now()
		if len(l.q) > 0 {
			head := l.q[0]
			if head.at <= now {
				l.q = l.q[1:]
				l.nDeliv++
				l.record('d', head.b)
				tap := l.tap
				more := len(l.q) > 0
				l.mu.Unlock()
				if more {
					select {
					case l.wakeup <- struct{}{}:
					default:
					}
				}
				if tap != nil {
					tap(head.b)
				}
				simrt.Note("%s DELIVER %s", l.name, pktString(head.b))
				return head.b, nil
			}
			l.mu.Unlock()
			select {
			case <-time.After(head.at - now):
			case <-ctx.Done():
				return nil, ctx.Err()
			}
			continue
		}
		l.mu.Unlock()
		select {
		case <-l.wakeup:
		case <-ctx.Done():
			return nil, ctx.Err()
		}
	}
}

func (l *link) lagOf() time.Duration {
	l.mu.Lock()
	defer l.mu.Unlock()
	return l.sendLag
}

func (l *link) pending() int {
	l.mu.Lock()
	defer l.mu.Unlock()
	return len(l.q)
}

func pktString(b []byte) string {
	if len(b) == 0 {
		return "EMPTY"
	}
	switch b[0] {
	case SYN:
		if len(b) >= 2 {
			return fmt.Sprintf("SYN(N=%d)", b[1])
		}
	case SYNACK:
		return "SYNACK"
	case FIN:
		return "FIN"
	case ACK:
		if len(b) >= 2 {
			return fmt.Sprintf("ACK(%d)", b[1])
		}
	case NACK:
		if len(b) >= 2 {
			return fmt.Sprintf("NACK(%d)", b[1])
		}
	case DATA:
		if len(b) >= 4 {
			k := "DATA"
			if b[3] == TRUE {
				k = "PING"
			}
			return fmt.Sprintf("%s(seq=%d fin=%d len=%d)", k, b[1], b[2], len(b)-4)
		}
	}
	return "RAW(" + simrt.Hex(b, 6) + ")"
}

// netPair is the two links of one connection.
type netPair struct {
	c2s, s2c *link
}

func newNetPair(rc *simrt.RunCtx, c2s, s2c *netCfg) *netPair {
	return &netPair{c2s: newLink(rc, "c2s", c2s), s2c: newLink(rc, "s2c", s2c)}
}

// swarmNet draws a per-run fault mix for one direction.
func swarmNet(rc *simrt.RunCtx, label string, resend time.Duration) *netCfg {
	drops := []int{0, 0, 10, 50, 150, 300}
	dups := []int{0, 0, 20, 100}
	cfg := &netCfg{
		dropPm: drops[rc.Pick(len(drops), label+".drop")],
		dupPm:  dups[rc.Pick(len(dups), label+".dup")],
		latMin: time.Millisecond,
	}
	switch rc.Pick(4, label+".lat") {
	case 0:
		cfg.latMax = 5 * time.Millisecond
	case 1:
		cfg.latMax = 40 * time.Millisecond
	case 2:
		cfg.latMax = resend / 2
	case 3:
		cfg.latMax = 20 * time.Millisecond
		cfg.bigLatPm = 30
		cfg.bigLat = resend * time.Duration(1+rc.Pick(3, label+".big"))
	}
	if cfg.latMax < cfg.latMin {
		cfg.latMax = cfg.latMin
	}
	rc.Knob(label, fmt.Sprintf("drop=%d dup=%d lat=%v..%v big=%d/%v", cfg.dropPm, cfg.dupPm, cfg.latMin, cfg.latMax, cfg.bigLatPm, cfg.bigLat))
	return cfg
}
