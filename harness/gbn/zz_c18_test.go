package gbn

// C18 - concurrent use is free of data races and internal panics: Send, Recv,
// Close and the timeout setters from several goroutines while the
// connection's own loops, tickers and resends run, with timer expiries that
// coincide with packet arrivals.
//
// These scenarios run in the race-detector build. The scheduler hides its own
// hand-offs from the detector, so the detector sees exactly the program's own
// synchronisation; ./check parses its reports. Panics are caught at the task
// roots, deadlocks by the watchdogs below.

import (
	"fmt"
	"sync"
	"time"

	"simrt"
)

func init() {
	simrt.Register(&simrt.Scenario{
		Prop: "C18", Name: "conn-concurrent", Count: tiered(1200, 240000),
		Run: c18Conn, MaxOps: 2 << 20, Horizon: 3 * time.Hour,
		Doc: "GBN pair with short keepalive intervals, packet deliveries aligned to ping/pong/resend tick instants, 2-4 application tasks per endpoint calling Send, Recv, SetSendTimeout, SetRecvTimeout and finally Close concurrently",
	})
	simrt.Register(&simrt.Scenario{
		Prop: "C18", Name: "dies-at-birth", Count: tiered(1500, 240000),
		Run: c18DiesAtBirth, MaxOps: 1 << 20, Horizon: time.Hour,
		Doc: "the first packet of the data phase (a FIN, a late handshake packet or garbage) is already waiting when the handshake completes, so that the connection's receive loop ends - and closes the connection - while the constructor is still starting the other loops; keepalive on; applications call Send/Recv/Close at once",
	})
	simrt.Register(&simrt.Scenario{
		Prop: "C18", Name: "ticker-direct", Count: tiered(2000, 320000),
		Run: c18Ticker, MaxOps: 1 << 20, Horizon: time.Hour,
		Doc: "IntervalAwareForceTicker driven by three tasks exactly as the connection drives it: Reset from two tasks, Pause/IsActive/Resume, a tick consumer, Stop at the end",
	})
	simrt.Register(&simrt.Scenario{
		Prop: "C18", Name: "timeoutmgr-direct", Count: tiered(800, 160000),
		Run: c20Concurrent, MaxOps: 1 << 20, Horizon: 500 * time.Hour,
		Doc: "TimeoutManager driven by a send-loop task, a receive-loop task and a reader/setter task (same scenario as C20's concurrent one, here under the race detector)",
	})
}

func c18Conn(rc *simrt.RunCtx) {
	ns := []uint8{1, 2, 5, DefaultN}
	n := ns[rc.Pick(len(ns), "knob.n")]
	// tick periods that are multiples of the link latency, so that ticks and
	// packet arrivals land on identical virtual instants
	unit := time.Duration(10+10*rc.Pick(5, "knob.unit")) * time.Millisecond
	tk := tknobs{handshake: 20 * unit, static: true, resend: unit * time.Duration(2+rc.Pick(6, "knob.resend")),
		ping: unit * time.Duration(2+rc.Pick(6, "knob.ping")), pong: unit * time.Duration(2+rc.Pick(8, "knob.pong"))}
	if rc.Pick(3, "knob.adaptive") == 2 {
		tk.static = false
	}
	rc.Knob("N", n)
	rc.Knob("timeouts", tk)
	mk := func() *netCfg {
		c := &netCfg{latMin: unit, latMax: unit}
		if rc.Pick(3, "net.lossy") == 2 {
			c.dropPm = 50 + 50*rc.Pick(3, "net.drop")
		}
		return c
	}
	np := newNetPair(rc, mk(), mk())
	opts := []Option{WithTimeoutOptions(tk.opts()...)}
	if rc.Pick(3, "knob.chunk") == 2 {
		opts = append(opts, WithMaxSendSize(1+rc.Pick(8, "knob.chunksz")))
	}
	p := startPair(rc, np, n, opts, opts)
	if !p.waitBoth(time.Minute) {
		p.closeAll()
		return
	}
	cli, e1 := p.cli.get()
	srv, e2 := p.srv.get()
	if e1 != nil || e2 != nil || cli == nil || srv == nil {
		p.closeAll()
		return
	}
	rc.Sample("N=%d %v unit=%v", n, tk, unit)
	var wg sync.WaitGroup
	apps := 1 + rc.Pick(2, "wl.apps")
	msgs := 3 + rc.Pick(25, "wl.msgs")
	for _, g := range []*GoBackNConn{cli, srv} {
		g := g
		for a := 0; a < apps; a++ {
			a := a
			wg.Add(1)
			go func() { // sender
				defer wg.Done()
				for i := 0; i < msgs; i++ {
					if g.Send(mkMsg('A'+byte(a), i, 9+i%7)) != nil {
						return
					}
					if simrt.Pm(200, "wl.idle") {
						// idle long enough for pings to flow
						time.Sleep(tk.ping * time.Duration(1+simrt.Choose(3, "wl.idlelen")))
					}
				}
			}()
		}
		wg.Add(2)
		go func() { // receiver
			defer wg.Done()
			for {
				if _, err := g.Recv(); err != nil && err != errRecvTimeout {
					return
				}
			}
		}()
		go func() { // timeout setters, as connKit.SetReadDeadline/SetWriteDeadline do
			defer wg.Done()
			for i := 0; i < 4+simrt.Choose(10, "wl.sets"); i++ {
				g.SetRecvTimeout(time.Duration(1+simrt.Choose(50, "wl.rt")) * unit)
				g.SetSendTimeout(time.Duration(50+simrt.Choose(50, "wl.st")) * unit)
				time.Sleep(unit * time.Duration(simrt.Choose(6, "wl.setgap")))
				if isClosed(g) {
					return
				}
			}
		}()
	}
	// let it run, then Close from one or two tasks per endpoint, possibly at a
	// tick instant
	time.Sleep(unit * time.Duration(20+rc.Pick(300, "wl.runlen")))
	rc.Progress()
	closers := 1 + rc.Pick(2, "wl.closers")
	for _, g := range []*GoBackNConn{cli, srv} {
		g := g
		for c := 0; c < closers; c++ {
			wg.Add(1)
			go func() {
				defer wg.Done()
				g.Close()
			}()
		}
	}
	done := make(chan struct{})
	go func() { wg.Wait(); close(done) }()
	select {
	case <-done:
	case <-time.After(10 * time.Minute):
		rc.Violate("c18.deadlock", "tasks-stuck-after-close", "10 virtual minutes after Close the application / internal tasks have not finished: %v", simrt.Live())
	}
	p.cancel()
}

func c18Ticker(rc *simrt.RunCtx) {
	iv := time.Duration(5+rc.Pick(30, "knob.interval")) * time.Millisecond
	t := NewIntervalAwareForceTicker(iv)
	if rc.Pick(2, "knob.resumed") == 1 {
		t.Resume()
	}
	rc.Sample("interval=%v", iv)
	var wg sync.WaitGroup
	stop := make(chan struct{})
	rounds := 5 + rc.Pick(40, "wl.rounds")
	// the send loop's use: on a tick, reset the pong-like ticker, resume it, reset itself
	wg.Add(3)
	go func() {
		defer wg.Done()
		for i := 0; i < rounds; i++ {
			select {
			case <-t.Ticks():
				t.Reset()
				t.Resume()
			case <-time.After(iv * 3):
				t.Reset()
			case <-stop:
				return
			}
		}
	}()
	// the receive loop's use: on every packet, reset; pause if active
	go func() {
		defer wg.Done()
		for i := 0; i < rounds; i++ {
			// packets arrive on multiples of the interval: same instant as ticks
			time.Sleep(iv * time.Duration(simrt.Choose(3, "wl.gap")))
			t.Reset()
			if t.IsActive() {
				t.Pause()
			}
			if simrt.Pm(300, "wl.resume") {
				t.Resume()
			}
		}
	}()
	go func() {
		defer wg.Done()
		for i := 0; i < rounds; i++ {
			time.Sleep(time.Duration(simrt.Choose(int(iv/time.Millisecond)*2+1, "wl.g2")) * time.Millisecond)
			t.NextTickIn()
			t.LastTimedTick()
		}
	}()
	done := make(chan struct{})
	go func() { wg.Wait(); close(done) }()
	select {
	case <-done:
		close(stop)
		t.Stop()
		rc.Progress()
	case <-time.After(time.Hour / 2):
		close(stop)
		rc.Violate("c18.deadlock", "ticker-users-stuck", "tasks using the ticker concurrently never finished: %v", simrt.Live())
	}
}

// c18DiesAtBirth: the connection's own Close (from its receive loop) runs
// concurrently with the constructor that is still starting its goroutines.
func c18DiesAtBirth(rc *simrt.RunCtx) {
	n := []uint8{1, 3, DefaultN}[rc.Pick(3, "knob.n")]
	tk := tknobs{handshake: 200 * time.Millisecond, static: true, resend: 100 * time.Millisecond, ping: 50 * time.Millisecond, pong: 50 * time.Millisecond}
	c2s := &netCfg{latMin: time.Millisecond, latMax: time.Millisecond}
	s2c := &netCfg{latMin: time.Millisecond, latMax: time.Millisecond}
	np := newNetPair(rc, c2s, s2c)
	first := [][]byte{{FIN}, {SYNACK}, {SYN, n}, {0x99, 1}, {}}[rc.Pick(5, "wl.first-packet")]
	side := rc.Pick(2, "wl.side")
	rc.Knob("case", fmt.Sprintf("N=%d first=%s to-server=%v", n, pktString(first), side == 0))
	// the packet is queued right behind the last handshake packet
	if side == 0 {
		np.c2s.filter = func(b []byte, _ time.Duration) (byte, time.Duration) {
			if len(b) > 0 && b[0] == SYNACK {
				go np.c2s.inject(first, 0)
			}
			return 0, 0
		}
	} else {
		np.s2c.filter = func(b []byte, _ time.Duration) (byte, time.Duration) {
			if len(b) > 0 && b[0] == SYN {
				go np.s2c.inject(first, 0)
			}
			return 0, 0
		}
	}
	opts := []Option{WithTimeoutOptions(tk.opts()...)}
	p := startPair(rc, np, n, opts, opts)
	p.waitBoth(10 * time.Second)
	cli, _ := p.cli.get()
	srv, _ := p.srv.get()
	var wg sync.WaitGroup
	for _, g := range []*GoBackNConn{cli, srv} {
		if g == nil {
			continue
		}
		g := g
		wg.Add(3)
		go func() { defer wg.Done(); g.Send(mkMsg('A', 0, 10)) }()
		go func() { defer wg.Done(); g.SetRecvTimeout(time.Second); g.Recv() }()
		go func() { defer wg.Done(); g.Close() }()
	}
	done := make(chan struct{})
	go func() { wg.Wait(); close(done) }()
	select {
	case <-done:
		rc.Progress()
		rc.Fault("first-packet-" + pktKind(first))
	case <-time.After(10 * time.Minute):
		rc.Violate("c18.deadlock", "tasks-stuck-after-early-close", "application calls on a connection that closed itself at once have not returned: %v", simrt.Live())
	}
	p.closeAll()
}
