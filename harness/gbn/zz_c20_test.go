package gbn

// C20 - the adaptive resend timeout stays within its bounds: never below the
// one-second floor, recomputed only from round-trip samples of packets that
// were not retransmitted, boosted by at most one step per base-timeout
// interval, back to the measured value on a fresh sample; a static timeout
// never moves.

import (
	"fmt"
	"sync"
	"time"

	"simrt"
)

func init() {
	simrt.Register(&simrt.Scenario{
		Prop: "C20", Name: "model-sequential", Count: tiered(20000, 2400000),
		Run: c20Sequential, MaxOps: 1 << 20, Horizon: 500 * time.Hour,
		Doc: "random histories of Sent/Resent/Received events (SYN, SYNACK, DATA and ACK of reused sequence numbers) with arbitrary virtual delays, checked event by event against a small executable reference model written from the statement",
	})
	simrt.Register(&simrt.Scenario{
		Prop: "C20", Name: "handshake-samples", Count: tiered(1500, 400000),
		Run: c20Handshake, MaxOps: 1 << 20, Horizon: 10 * time.Hour,
		Doc: "real client and server handshakes in adaptive mode over a slow link (one-way 50-700 ms) with handshake timeouts below and above the round trip and occasional loss, so that SYNs and SYN echoes are or are not retransmitted; right after each constructor returns its resend timeout must equal max(1 s, multiplier x RTT of the SYN exchange) if that side transmitted its SYN exactly once, and the initial value otherwise",
	})
	simrt.Register(&simrt.Scenario{
		Prop: "C20", Name: "invariants-concurrent", Count: tiered(6000, 800000),
		Run: c20Concurrent, MaxOps: 1 << 20, Horizon: 500 * time.Hour,
		Doc: "a send-loop task and a receive-loop task (plus a reader) drive one TimeoutManager concurrently with the call patterns of the connection; floor / static / monotonic-boost invariants after every call",
	})
	simrt.Register(&simrt.Scenario{
		Prop: "C20", Name: "conn-karn", Count: tiered(1500, 240000),
		Run: c20ConnKarn, MaxOps: 2 << 20, Horizon: 3 * time.Hour,
		Doc: "the manager inside a live connection pair in adaptive mode: lossy client-to-server link, a transport write call that returns 0-2 s after the packet is on its way (so acknowledgements can come back while the call is still running); at every ACK delivered to the client for a packet that had been transmitted more than once, the base resend timeout must be the same before and after it is processed",
	})
}

// ---- reference model (written from the statement, not from the code) ------

type c20Model struct {
	static     bool
	base       time.Duration // measured (or configured) timeout without boost
	boosts     int
	boostPct   float32
	lastBoost  time.Duration // virtual instant of the last effective boost / sample
	everBoost  bool
	mult       int
	freq       int
	eligible   int  // eligible ACK samples since the last recomputation
	everSample bool // a dynamic value has been set at least once
	dataSent   map[uint8]time.Duration
	synSent    time.Duration
	synValid   bool
	hsBase     time.Duration
	hsBoosts   int
}

func (m *c20Model) resend() time.Duration {
	return m.base + time.Duration(float32(m.base)*m.boostPct*float32(m.boosts))
}

func (m *c20Model) handshake() time.Duration {
	return m.hsBase + time.Duration(float32(m.hsBase)*m.boostPct*float32(m.hsBoosts))
}

func (m *c20Model) sample(rtt time.Duration, now time.Duration) {
	v := time.Duration(m.mult) * rtt
	if v < time.Second {
		v = time.Second
	}
	m.base = v
	m.boosts = 0
	m.lastBoost = now
	m.everBoost = true
	m.everSample = true
}

func (m *c20Model) sentData(seq uint8, resent bool, now time.Duration) {
	if m.static {
		return
	}
	if !resent {
		m.dataSent[seq] = now
		return
	}
	delete(m.dataSent, seq) // that transmission is no longer an eligible sample
	// at most one boost step per base-timeout interval
	if !m.everBoost || now-m.lastBoost >= m.base {
		m.boosts++
		m.lastBoost = now
		m.everBoost = true
	}
}

func (m *c20Model) sentSYN(resent bool, now time.Duration) {
	if m.static {
		return
	}
	if !resent {
		m.synSent, m.synValid = now, true
		return
	}
	m.synValid = false
	m.hsBoosts++
}

func (m *c20Model) recvSYNish(now time.Duration) {
	if m.static || !m.synValid {
		return
	}
	m.synValid = false
	m.sample(now-m.synSent, now)
}

func (m *c20Model) recvACK(seq uint8, now time.Duration) {
	if m.static {
		return
	}
	t, ok := m.dataSent[seq]
	if !ok {
		return
	}
	delete(m.dataSent, seq)
	m.eligible++
	if !m.everSample || m.eligible%m.freq == 0 {
		m.eligible = 0
		m.sample(now-t, now)
	}
}

func near(a, b time.Duration) bool {
	d := a - b
	if d < 0 {
		d = -d
	}
	tol := time.Duration(float64(b)*1e-5) + time.Microsecond
	return d <= tol
}

func c20Sequential(rc *simrt.RunCtx) {
	static := rc.Pick(5, "knob.static") == 4
	mult := 1 + rc.Pick(20, "knob.mult")
	freq := 1 + rc.Pick(12, "knob.freq")
	if rc.Pick(4, "knob.freqbig") == 3 {
		freq = 1 + rc.Pick(300, "knob.freq2")
	}
	pct := float32(1+rc.Pick(300, "knob.boost")) / 100
	hs := time.Duration(200+100*rc.Pick(20, "knob.hs")) * time.Millisecond
	opts := []TimeoutOptions{WithResendMultiplier(mult), WithTimeoutUpdateFrequency(freq), WithBoostPercent(pct), WithHandshakeTimeout(hs)}
	staticVal := time.Duration(1+rc.Pick(5000, "knob.staticval")) * time.Millisecond
	m := &c20Model{static: static, base: time.Second, boostPct: pct, mult: mult, freq: freq, dataSent: map[uint8]time.Duration{}, hsBase: hs}
	if static {
		opts = append(opts, WithStaticResendTimeout(staticVal))
		m.base = staticVal
	}
	tm := NewTimeOutManager(nil, opts...)
	rc.Sample("static=%v mult=%d freq=%d boost=%v%% hs=%v", static, mult, freq, pct*100, hs)
	seqSpace := 2 + rc.Pick(6, "knob.seqspace") // few numbers: heavy reuse across laps
	steps := 20 + rc.Pick(200, "wl.steps")
	var hist []string
	note := func(f string, a ...any) {
		hist = append(hist, fmt.Sprintf("%v ", rc.Now())+fmt.Sprintf(f, a...))
		if len(hist) > 14 {
			hist = hist[1:]
		}
	}
	check := func(what string) bool {
		got, want := tm.GetResendTimeout(), m.resend()
		if !near(got, want) {
			cause := "differs-from-model"
			if got < time.Second && !static {
				cause = "below-floor"
			} else if static {
				cause = "static-changed"
			}
			rc.Violate("c20.model", cause, "after %s: GetResendTimeout()=%v, reference model says %v (base %v, %d boost steps of %.0f%%, mult %d, freq %d, static=%v); recent history: %v",
				what, got, want, m.base, m.boosts, pct*100, mult, freq, static, hist)
			return false
		}
		if !static && got < time.Second {
			rc.Violate("c20.floor", "below-floor", "adaptive resend timeout %v below the 1s floor after %s", got, what)
			return false
		}
		hgot, hwant := tm.GetHandshakeTimeout(), m.handshake()
		if !near(hgot, hwant) {
			rc.Violate("c20.model", "handshake-timeout", "after %s: GetHandshakeTimeout()=%v, model %v; history %v", what, hgot, hwant, hist)
			return false
		}
		rc.State(uint64(got/time.Millisecond), uint64(m.boosts), uint64(len(m.dataSent)))
		return true
	}
	if !check("construction") {
		return
	}
	for i := 0; i < steps; i++ {
		// advance the clock: 0 .. 10 x the current timeout, biased to short
		var d time.Duration
		switch rc.Pick(5, "wl.delay") {
		case 0:
			d = 0
		case 1:
			d = time.Duration(rc.Pick(50, "wl.ms")) * time.Millisecond
		case 2:
			d = time.Duration(rc.Pick(2000, "wl.ms")) * time.Millisecond
		case 3:
			d = m.resend() * time.Duration(rc.Pick(11, "wl.x")) / 2
		case 4:
			d = m.base + time.Duration(rc.Pick(3, "wl.eps")-1)*time.Millisecond // right around the boost interval
		}
		if d > 2*time.Minute {
			d = 2 * time.Minute
		}
		if d > 0 {
			time.Sleep(d)
		}
		now := rc.Now()
		seq := uint8(rc.Pick(seqSpace, "wl.seq"))
		var what string
		switch rc.Pick(9, "wl.event") {
		case 0, 1:
			what = fmt.Sprintf("Sent(DATA %d)", seq)
			tm.Sent(&PacketData{Seq: seq}, false)
			m.sentData(seq, false, now)
		case 2, 3:
			what = fmt.Sprintf("Resent(DATA %d)", seq)
			tm.Sent(&PacketData{Seq: seq}, true)
			m.sentData(seq, true, now)
			rc.Fault("resend")
		case 4, 5:
			what = fmt.Sprintf("Received(ACK %d)", seq)
			tm.Received(&PacketACK{Seq: seq})
			m.recvACK(seq, now)
		case 6:
			resent := rc.Pick(2, "wl.synresent") == 1
			what = fmt.Sprintf("Sent(SYN resent=%v)", resent)
			tm.Sent(&PacketSYN{N: 20}, resent)
			m.sentSYN(resent, now)
		case 7:
			if rc.Pick(2, "wl.synack") == 0 {
				what = "Received(SYN)"
				tm.Received(&PacketSYN{N: 20})
			} else {
				what = "Received(SYNACK)"
				tm.Received(&PacketSYNACK{})
			}
			m.recvSYNish(now)
		case 8:
			// packets that carry no timing information
			switch rc.Pick(3, "wl.other") {
			case 0:
				what = fmt.Sprintf("Received(NACK %d)", seq)
				tm.Received(&PacketNACK{Seq: seq})
			case 1:
				what = fmt.Sprintf("Received(DATA %d)", seq)
				tm.Received(&PacketData{Seq: seq})
			case 2:
				what = "Sent(ACK)"
				tm.Sent(&PacketACK{Seq: seq}, false)
			}
		}
		note("%s", what)
		simrt.NoteSig("%s +%v", what, d)
		if !check(what) {
			return
		}
	}
	if m.everSample {
		rc.Probe("c20.sample-taken")
	}
	if m.boosts > 0 {
		rc.Probe("c20.ends-boosted")
	}
	rc.Progress()
}

func c20Concurrent(rc *simrt.RunCtx) {
	static := rc.Pick(4, "knob.static") == 3
	mult := 1 + rc.Pick(10, "knob.mult")
	freq := 1 + rc.Pick(5, "knob.freq")
	pct := float32(10+rc.Pick(200, "knob.boost")) / 100
	opts := []TimeoutOptions{WithResendMultiplier(mult), WithTimeoutUpdateFrequency(freq), WithBoostPercent(pct)}
	staticVal := time.Duration(50+rc.Pick(3000, "knob.staticval")) * time.Millisecond
	if static {
		opts = append(opts, WithStaticResendTimeout(staticVal))
	}
	tm := NewTimeOutManager(nil, opts...)
	rc.Sample("static=%v mult=%d freq=%d boost=%v%% (concurrent)", static, mult, freq, pct*100)
	var mu sync.Mutex
	stop := false
	bad := func(who string, got time.Duration) bool {
		if static && got != staticVal {
			rc.Violate("c20.invariant", "static-changed", "%s: static resend timeout %v became %v", who, staticVal, got)
			return true
		}
		if !static && got < time.Second {
			rc.Violate("c20.invariant", "below-floor", "%s: adaptive resend timeout %v below the 1s floor", who, got)
			return true
		}
		return false
	}
	var wg sync.WaitGroup
	s := uint8(3 + rc.Pick(5, "knob.s"))
	rounds := 10 + rc.Pick(60, "wl.rounds")
	wg.Add(3)
	// send loop: first transmissions and resends
	go func() {
		defer wg.Done()
		seq := uint8(0)
		for i := 0; i < rounds; i++ {
			if simrt.Pm(300, "wl.resend") {
				for k := uint8(0); k < 1+uint8(simrt.Choose(3, "wl.burst")); k++ {
					tm.Sent(&PacketData{Seq: (seq + k) % s}, true)
				}
			} else {
				tm.Sent(&PacketData{Seq: seq}, false)
				seq = (seq + 1) % s
			}
			if bad("send loop", tm.GetResendTimeout()) {
				return
			}
			time.Sleep(time.Duration(simrt.Choose(1500, "wl.sd")) * time.Millisecond)
		}
	}()
	// receive loop: ACKs (also for numbers never sent), other packets
	go func() {
		defer wg.Done()
		for i := 0; i < rounds; i++ {
			switch simrt.Choose(4, "wl.rk") {
			case 0, 1, 2:
				tm.Received(&PacketACK{Seq: uint8(simrt.Choose(int(s), "wl.ack"))})
			case 3:
				tm.Received(&PacketNACK{Seq: uint8(simrt.Choose(int(s), "wl.nack"))})
			}
			if bad("receive loop", tm.GetResendTimeout()) {
				return
			}
			time.Sleep(time.Duration(simrt.Choose(900, "wl.rd")) * time.Millisecond)
		}
	}()
	// a reader (Send/Recv callers read timeouts, NACK back-off reads it)
	go func() {
		defer wg.Done()
		for {
			mu.Lock()
			st := stop
			mu.Unlock()
			if st {
				return
			}
			if bad("reader", tm.GetResendTimeout()) {
				return
			}
			tm.GetHandshakeTimeout()
			tm.SetSendTimeout(time.Second)
			tm.GetSendTimeout()
			time.Sleep(time.Duration(1+simrt.Choose(400, "wl.gd")) * time.Millisecond)
		}
	}()
	done := make(chan struct{})
	go func() {
		time.Sleep(time.Duration(rounds) * 2 * time.Second)
		mu.Lock()
		stop = true
		mu.Unlock()
		wg.Wait()
		close(done)
	}()
	select {
	case <-done:
		rc.Progress()
	case <-time.After(24 * time.Hour):
		rc.Violate("c20.deadlock", "tasks-stuck", "timeout-manager calls of the send/receive/reader tasks never returned: %v", simrt.Live())
	}
}

func c20Handshake(rc *simrt.RunCtx) {
	n := uint8(1 + rc.Pick(30, "knob.n"))
	mult := 1 + rc.Pick(8, "knob.mult")
	lat := time.Duration(50+rc.Pick(650, "net.lat")) * time.Millisecond
	hsC := time.Duration(200+100*rc.Pick(25, "knob.hsc")) * time.Millisecond
	hsS := time.Duration(200+100*rc.Pick(25, "knob.hss")) * time.Millisecond
	drop := []int{0, 0, 100, 250}[rc.Pick(4, "net.drop")]
	c2s := &netCfg{latMin: lat, latMax: lat, dropPm: drop}
	s2c := &netCfg{latMin: lat, latMax: lat, dropPm: drop}
	np := newNetPair(rc, c2s, s2c)
	np.c2s.keep, np.s2c.keep = true, true
	optsC := []Option{WithTimeoutOptions(WithResendMultiplier(mult), WithHandshakeTimeout(hsC))}
	optsS := []Option{WithTimeoutOptions(WithResendMultiplier(mult), WithHandshakeTimeout(hsS))}
	rc.Knob("case", fmt.Sprintf("lat=%v hsC=%v hsS=%v mult=%d drop=%d", lat, hsC, hsS, mult, drop))
	p := startPair(rc, np, n, optsC, optsS)
	// read each side's timeout at the instant its constructor returns
	type obs struct {
		ok      bool
		timeout time.Duration
		hs      time.Duration
		at      time.Duration
	}
	watch := func(ep *endpoint) chan obs {
		ch := make(chan obs, 1)
		go func() {
			select {
			case <-ep.ready:
			case <-time.After(5 * time.Minute):
				ch <- obs{}
				return
			}
			c, err := ep.get()
			if err != nil || c == nil {
				ch <- obs{}
				return
			}
			ch <- obs{true, c.timeoutManager.GetResendTimeout(), c.timeoutManager.GetHandshakeTimeout(), rc.Now()}
		}()
		return ch
	}
	oc, os := watch(p.cli), watch(p.srv)
	co, so := <-oc, <-os
	defer p.closeAll()
	// reconstruct from the wire what each side transmitted and when
	type ev struct {
		t    time.Duration
		kind byte
		typ  byte
	}
	collect := func(l *link) []ev {
		l.mu.Lock()
		defer l.mu.Unlock()
		var out []ev
		for _, e := range l.log {
			if len(e.b) > 0 {
				out = append(out, ev{e.t, e.kind, e.b[0]})
			}
		}
		return out
	}
	cEv, sEv := collect(np.c2s), collect(np.s2c)
	expect := func(own, other []ev, answer byte, until time.Duration) (time.Duration, int, bool) {
		// own SYN transmissions up to `until`; the answer (echoed SYN for
		// the client, SYNACK for the server) that ended the handshake is
		// the last delivery of that type on the other link up to `until`
		var sent []time.Duration
		for _, e := range own {
			if e.kind == 's' && e.typ == SYN && e.t <= until {
				sent = append(sent, e.t)
			}
		}
		var got time.Duration = -1
		for _, e := range other {
			if e.kind == 'd' && e.typ == answer && e.t <= until {
				got = e.t
			}
		}
		if len(sent) != 1 || got < 0 {
			return time.Second, len(sent), len(sent) == 1
		}
		v := time.Duration(mult) * (got - sent[0])
		if v < time.Second {
			v = time.Second
		}
		return v, 1, true
	}
	judge := func(who string, o obs, want time.Duration, tx int, sampled bool, hsBase time.Duration) {
		if !o.ok || rc.Failed() {
			return
		}
		rc.Progress()
		if tx > 1 {
			rc.Fault(who + "-syn-retransmitted")
		}
		if !near(o.timeout, want) {
			cause := who + "/sampled-from-retransmitted-syn"
			if tx == 1 {
				cause = who + "/wrong-sample"
			}
			rc.Violate("c20.handshake-sample", cause, "%s transmitted its SYN %d time(s); right after its handshake its resend timeout is %v, expected %v (multiplier %d, one-way latency %v, handshake timeouts %v/%v)", who, tx, o.timeout, want, mult, lat, hsC, hsS)
			return
		}
		if tx == 1 && o.hs != hsBase {
			rc.Violate("c20.handshake-sample", who+"/handshake-timeout-moved", "%s never retransmitted its SYN but its handshake timeout is %v instead of %v", who, o.hs, hsBase)
		}
	}
	cw, ctx, cs := expect(cEv, sEv, SYN, co.at)
	judge("client", co, cw, ctx, cs, hsC)
	// the server may also complete through the restart shortcut (SYNACK or
	// DATA after a timeout): then every echo it sent counts as retransmitted
	sw, stx, ss := expect(sEv, cEv, SYNACK, so.at)
	judge("server", so, sw, stx, ss, hsS)
	rc.Sample("lat=%v hsC=%v hsS=%v mult=%d drop=%d: client sent %d SYN -> %v, server sent %d SYN -> %v", lat, hsC, hsS, mult, drop, ctx, co.timeout, stx, so.timeout)
}

// c20ConnKarn: the "no sample from a retransmitted packet" rule as the
// connection applies it, with send callbacks that take their time.
func c20ConnKarn(rc *simrt.RunCtx) {
	n := []uint8{1, 2, 3, DefaultN}[rc.Pick(4, "knob.n")]
	lat := time.Duration(1+rc.Pick(10, "net.lat")) * time.Millisecond
	lag := []time.Duration{0, 50 * time.Millisecond, 500 * time.Millisecond, 2 * time.Second}[rc.Pick(4, "net.sendlag")]
	dropPm := []int{20, 100, 300}[rc.Pick(3, "net.drop")]
	tk := tknobs{handshake: 300 * time.Millisecond, resend: time.Second} // adaptive
	rc.Knob("case", fmt.Sprintf("N=%d lat=%v write-call-lag=%v drop=%d", n, lat, lag, dropPm))
	c2s := &netCfg{latMin: lat, latMax: lat}
	s2c := &netCfg{latMin: lat, latMax: lat}
	np := newNetPair(rc, c2s, s2c)
	freq := 1 + rc.Pick(4, "knob.updatefreq")
	opts := []Option{WithTimeoutOptions(append(tk.opts(), WithTimeoutUpdateFrequency(freq))...)}
	p := startPair(rc, np, n, opts, opts)
	if !p.waitBoth(time.Minute) {
		rc.HarnessError("fault-free handshake did not complete")
		p.closeAll()
		return
	}
	cli, e1 := p.cli.get()
	srv, e2 := p.srv.get()
	if e1 != nil || e2 != nil || cli == nil || srv == nil {
		rc.HarnessError("fault-free handshake failed: %v %v", e1, e2)
		p.closeAll()
		return
	}
	defer p.closeAll()
	base := func() time.Duration {
		cli.timeoutManager.mu.RLock()
		defer cli.timeoutManager.mu.RUnlock()
		return cli.timeoutManager.resendTimeout
	}
	var mu sync.Mutex
	txCount := map[uint8]int{} // transmissions of each sequence number since it was last acknowledged
	firstTx := map[uint8]time.Duration{}
	type pend struct {
		seq    uint8
		before time.Duration
		tx     int
		rtt    time.Duration // for a packet transmitted once: ACK delivery minus transmission
	}
	var pending *pend
	check := func() {
		mu.Lock()
		pd := pending
		pending = nil
		mu.Unlock()
		if pd == nil {
			return
		}
		after := base()
		if pd.tx >= 2 {
			if after != pd.before {
				rc.Violate("c20.sample-from-retransmission", "base-timeout-changed-by-ack-of-resent-packet", "ACK(%d) acknowledged a packet that had been transmitted %d times; processing it changed the client's base resend timeout from %v to %v (write calls return %v late, one-way latency %v, N=%d)", pd.seq, pd.tx, pd.before, after, lag, lat, n)
			}
			return
		}
		// a packet transmitted once: if this ACK was used as a sample, the new
		// base is multiplier x its round trip (or the floor) - never more
		limit := time.Duration(cli.timeoutManager.resendMultiplier)*pd.rtt + time.Millisecond
		if limit < minimumResendTimeout {
			limit = minimumResendTimeout
		}
		if after != pd.before && after > limit {
			rc.Violate("c20.sample-from-retransmission", "sample-larger-than-the-round-trip", "ACK(%d) came %v after its packet's only transmission; processing it set the client's base resend timeout to %v (was %v): the sample was measured from some earlier send time (write calls return %v late, one-way latency %v, N=%d)", pd.seq, pd.rtt, after, pd.before, lag, lat, n)
		}
	}
	np.c2s.mu.Lock()
	np.c2s.sendLag = lag
	c2s.dropPm = dropPm
	np.c2s.onSend = func(b []byte) {
		if len(b) >= 4 && b[0] == DATA {
			mu.Lock()
			txCount[b[1]]++
			if txCount[b[1]] == 1 {
				firstTx[b[1]] = rc.Now()
			}
			mu.Unlock()
		}
	}
	np.c2s.mu.Unlock()
	// the previous packet has been processed by the client's receive loop
	// whenever that loop comes back for the next one: wrap its receive side
	inner := np.s2c.tap
	np.s2c.mu.Lock()
	np.s2c.tap = func(b []byte) {
		if inner != nil {
			inner(b)
		}
		check() // the packet before this one is done
		if len(b) >= 2 && b[0] == ACK {
			mu.Lock()
			if c := txCount[b[1]]; c >= 2 {
				pending = &pend{seq: b[1], before: base(), tx: c}
				rc.Probe("c20.ack-of-resent-packet")
			} else if c == 1 {
				pending = &pend{seq: b[1], before: base(), tx: 1, rtt: rc.Now() - firstTx[b[1]]}
			}
			txCount[b[1]] = 0
			mu.Unlock()
		}
	}
	np.s2c.mu.Unlock()
	go func() {
		for {
			if _, err := srv.Recv(); err != nil {
				return
			}
		}
	}()
	msgs := 20 + rc.Pick(60, "wl.msgs")
	rc.Sample("N=%d one-way %v write-call lag %v drop %d/1000: %d messages, adaptive timeouts", n, lat, lag, dropPm, msgs)
	sent := make(chan struct{})
	go func() {
		defer close(sent)
		for i := 0; i < msgs && !rc.Failed(); i++ {
			if err := cli.Send(mkMsg('A', i, 20)); err != nil {
				break
			}
			if simrt.Pm(300, "wl.pause") {
				time.Sleep(time.Duration(1+simrt.Choose(4000, "wl.pauselen")) * time.Millisecond)
			}
		}
	}()
	// (with slow write calls, a large window and heavy loss the boosted
	// timeouts make the transfer crawl: the run does not wait for its end)
	select {
	case <-sent:
		time.Sleep(10 * time.Second)
	case <-time.After(40 * time.Minute):
		rc.Probe("c20.conn-karn-transfer-cut-short")
	}
	check()
	if !rc.Failed() {
		rc.Progress()
		rc.Fault("slow-write-call")
	}
}
