package gbn

// C01 - GBN delivers every message exactly once, in order and intact, in both
// directions at once, for every window size, whatever an order-preserving
// transport drops, duplicates or delays.

import (
	"fmt"
	"time"

	"simrt"
)

func init() {
	simrt.Register(&simrt.Scenario{
		Prop: "C01", Name: "bidir-lossy", Count: tiered(8000, 960000),
		Run: func(rc *simrt.RunCtx) { c01Run(rc, true) }, MaxOps: 3 << 20, Horizon: 8 * time.Hour,
		Doc: "client+server GoBackNConn, handshake included, concurrent traffic in both directions over a lossy/duplicating/delaying FIFO transport; online per-direction prefix oracle",
	})
	simrt.Register(&simrt.Scenario{
		Prop: "C01", Name: "bidir-clean", Count: tiered(1000, 80000),
		Run: func(rc *simrt.RunCtx) { c01Run(rc, false) }, MaxOps: 3 << 20, Horizon: 8 * time.Hour,
		Doc: "same workload over a fault-free transport (separate sub-batch so that fault handling can hide no ordinary bug)",
	})
}

var c01Ns = []uint8{1, 2, 3, 5, DefaultN, 64, 253, 254}

func c01Run(rc *simrt.RunCtx, faults bool) {
	var n uint8
	if rc.Pick(4, "knob.nmode") == 3 {
		n = uint8(1 + rc.Pick(254, "knob.n"))
	} else {
		n = c01Ns[rc.Pick(len(c01Ns), "knob.n")]
	}
	tk := tknobs{handshake: 200 * time.Millisecond}
	if rc.Pick(3, "knob.adaptive") != 2 {
		tk.static = true
		tk.resend = time.Duration(50+50*rc.Pick(5, "knob.resend")) * time.Millisecond
	} else {
		tk.resend = time.Second
	}
	if rc.Pick(5, "knob.keepalive") == 4 {
		tk.ping = time.Duration(2+rc.Pick(6, "knob.ping")) * time.Second
		tk.pong = time.Duration(1+rc.Pick(4, "knob.pong")) * time.Second
	}
	chunk := 0
	if rc.Pick(3, "knob.chunk") == 2 {
		chunk = 1 + rc.Pick(64, "knob.chunksz")
	}
	rc.Knob("N", n)
	rc.Knob("timeouts", tk)
	rc.Knob("chunk", chunk)

	var c2s, s2c *netCfg
	if faults {
		c2s, s2c = swarmNet(rc, "net.c2s", tk.resend), swarmNet(rc, "net.s2c", tk.resend)
	} else {
		c2s = &netCfg{latMin: time.Millisecond, latMax: 3 * time.Millisecond}
		s2c = &netCfg{latMin: time.Millisecond, latMax: 3 * time.Millisecond}
	}
	np := newNetPair(rc, c2s, s2c)
	opts := []Option{WithTimeoutOptions(tk.opts()...)}
	if chunk > 0 {
		opts = append(opts, WithMaxSendSize(chunk))
	}
	p := startPair(rc, np, n, opts, opts)

	mA := rc.Range(1, 300, "wl.msgsA")
	mB := rc.Range(0, 300, "wl.msgsB")
	if rc.Pick(3, "wl.small") == 0 {
		mA, mB = 1+mA%12, mB%12
	}
	// keep the expected number of packets per run bounded: go-back-N resends
	// up to a whole window per loss, chunking multiplies packets per message
	capMsgs := func(m int, cfg *netCfg) int {
		per := 1 + int(n)*(cfg.dropPm+cfg.bigLatPm)/1000
		if lim := 2500 / per; m > lim {
			m = lim
		}
		return m
	}
	mA, mB = capMsgs(mA, c2s), capMsgs(mB, s2c)
	sizesA := drawSizes(rc, mA, "wl.sizeA")
	sizesB := drawSizes(rc, mB, "wl.sizeB")
	if chunk > 0 {
		for _, sz := range [][]int{sizesA, sizesB} {
			for i := range sz {
				if sz[i] > 9+chunk*5 {
					sz[i] = 9 + (sz[i]-9)%(chunk*5)
				}
			}
		}
	}
	// application behaviour: a reader that lags behind (so that more than a
	// window of packets piles up before it calls Recv again), a reader with a
	// receive timeout that it retries after, a writer with idle gaps
	var lagPm, lagMax, gapPm int
	var recvTO time.Duration
	switch rc.Pick(4, "wl.reader") {
	case 1:
		lagPm, lagMax = 100, 40
	case 2:
		lagPm, lagMax = 30, 2000
	case 3:
		lagPm, lagMax = 500, 5
	}
	if rc.Pick(3, "wl.recvtimeout") == 0 {
		recvTO = []time.Duration{time.Millisecond, 20 * time.Millisecond, 150 * time.Millisecond, time.Second}[rc.Pick(4, "wl.recvto")]
	}
	if rc.Pick(4, "wl.writergaps") == 0 {
		gapPm = 50
	}
	reuseBuf := rc.Pick(4, "wl.reuse-send-buffer") == 0
	rc.Knob("app", fmt.Sprintf("readerlag=%d/%dms recvtimeout=%v writergaps=%d reusebuf=%v", lagPm, lagMax, recvTO, gapPm, reuseBuf))
	rc.Sample("N=%d %v chunk=%d msgs c2s=%d s2c=%d faults=%v readerlag=%d/%dms recvtimeout=%v", n, tk, chunk, mA, mB, faults, lagPm, lagMax, recvTO)

	done := make(chan string, 8)
	delivered := [2]int{}
	sender := func(name string, dir byte, ep *endpoint, sizes []int) {
		go func() {
			defer func() { done <- name }()
			<-ep.ready
			c, err := ep.get()
			if err != nil || c == nil {
				return
			}
			var scratch []byte
			for i, sz := range sizes {
				m := mkMsg(dir, i, sz)
				if reuseBuf {
					// one scratch buffer for all messages, overwritten
					// as soon as Send has returned
					scratch = append(scratch[:0], m...)
					m = scratch
				}
				if err := c.Send(m); err != nil {
					simrt.Note("%s Send(%d) error: %v", name, i, err)
					return
				}
				if reuseBuf {
					for k := range scratch {
						scratch[k] = 0xEE
					}
				}
				if gapPm > 0 && simrt.Pm(gapPm, "wl.wgap") {
					time.Sleep(time.Duration(1+simrt.Choose(3000, "wl.wgaplen")) * time.Millisecond)
				}
			}
		}()
	}
	receiver := func(name string, dir byte, slot int, ep *endpoint, sizes []int) {
		go func() {
			defer func() { done <- name }()
			<-ep.ready
			c, err := ep.get()
			if err != nil || c == nil {
				return
			}
			if recvTO > 0 {
				c.SetRecvTimeout(recvTO)
			}
			timeouts := 0
			for i := 0; i < len(sizes); i++ {
				if lagPm > 0 && simrt.Pm(lagPm, "wl.rlag") {
					time.Sleep(time.Duration(1+simrt.Choose(lagMax, "wl.rlaglen")) * time.Millisecond)
				}
				b, err := c.Recv()
				if err == errRecvTimeout && timeouts < 20000 {
					// nothing (or only a part of a message) arrived in
					// time: the message must come out whole later
					timeouts++
					rc.Probe("c01.recv-timeout-retried")
					i--
					continue
				}
				if err != nil {
					simrt.Note("%s Recv(%d) error: %v", name, i, err)
					return
				}
				want := mkMsg(dir, i, sizes[i])
				if !eqBytes(b, want) {
					rc.Violate("c01.prefix", "recv-mismatch",
						"direction %c: Recv #%d returned [%s], the %d-th accepted message is [%s] (N=%d)",
						dir, i, describe(b), i, describe(want), n)
					return
				}
				delivered[slot]++
				rc.Progress()
			}
		}()
	}
	sender("snd-c2s", 'A', p.cli, sizesA)
	receiver("rcv-c2s", 'A', 0, p.srv, sizesA)
	sender("snd-s2c", 'B', p.srv, sizesB)
	receiver("rcv-s2c", 'B', 1, p.cli, sizesB)

	// Wait for the four application tasks. C01 is a safety property: a run
	// in which an endpoint failed to connect, or in which nothing has been
	// delivered for ten virtual minutes, is ended (and counted) - progress is
	// C06's business.
	finished, last, lastAt := 0, 0, rc.Now()
wait:
	for finished < 4 {
		select {
		case <-done:
			finished++
		case <-time.After(20 * time.Second):
			if _, err := p.cli.get(); err != nil {
				rc.Probe("c01.client-connect-failed")
				break wait
			}
			if _, err := p.srv.get(); err != nil {
				rc.Probe("c01.server-connect-failed")
				break wait
			}
			if d := delivered[0] + delivered[1]; d != last {
				last, lastAt = d, rc.Now()
			} else if rc.Now()-lastAt > 10*time.Minute {
				rc.Probe("c01.no-progress-10min")
				break wait
			}
		}
	}
	if delivered[0] == mA && delivered[1] == mB {
		rc.Probe("c01.complete")
	} else {
		rc.Probe("c01.incomplete")
	}
	rc.ProbeN("c01.delivered", delivered[0]+delivered[1])
	if int(n) < mA || int(n) < mB {
		rc.Probe("c01.seq-wrapped")
	}
	rc.State(uint64(n), uint64(chunk), uint64(boolInt(tk.static)), uint64(boolInt(tk.ping != 0)))
	p.closeAll()
	_ = fmt.Sprint
}

func boolInt(b bool) int {
	if b {
		return 1
	}
	return 0
}
