package mailbox

// C11 - one live connection per session; reconnect and the post-pairing
// switch line up: Accept / Dial never hand out a second connection while the
// previous one is open and hand out a fresh working one once it is closed;
// after a first pairing in which static keys were exchanged both parties move
// to the same key-derived rendezvous and reconnect there with the key-based
// handshake, and a client presenting only the original passphrase is no
// longer admitted.

import (
	"context"
	"fmt"
	"time"

	"simrt"
)

func init() {
	simrt.Register(&simrt.Scenario{
		Prop: "C11", Name: "session-histories", Count: tiered(400, 200000),
		Run: c11Run, MaxOps: 8 << 20, Horizon: 8 * time.Hour,
		Doc: "one session driven as gRPC drives it (Accept re-entered at once, Dial sometimes called while a connection is open) through a tape-chosen history of connect / transfer / close-by-client / close-by-server / close-by-both / relay-outage / relay-restart (all mailboxes lost) events, with or without failing DelCipherBox calls; first pairing at version 2 (or 1: no switch); finally a second, unpaired client with only the passphrase",
	})
}

func c11Run(rc *simrt.RunCtx) {
	pr := newPrng(rc.Seed())
	installEphemeralGen(pr)
	rl := newRelay(rc, relayFaults{latMin: time.Millisecond, latMax: time.Duration(2+rc.Pick(20, "relay.latmax")) * time.Millisecond,
		asyncSend: []time.Duration{0, time.Millisecond, 5 * time.Millisecond}[rc.Pick(3, "relay.k.async-send")]})
	maxV := byte(2)
	maxVC, maxVS := byte(2), byte(2)
	// (the responder always answers with its own maximum version, so an
	// older client cannot talk to a newer server at all; only the deployed
	// order - client updated first - is exercised)
	switch rc.Pick(8, "knob.maxversion") {
	case 5:
		maxVC, maxVS, maxV = 1, 1, 1
	case 6, 7: // an updated client pairs with an older server: version 1 is negotiated
		maxVC, maxVS, maxV = 2, 1, 1
	}
	st := newStackV(rc, rl, pr, 40+rc.Pick(300, "knob.auth"), maxVC, maxVS)
	st.eager = true
	st.planBytes = func(string, int) int { return 16 + rc.Pick(30000, "wl.plan") }
	rounds := 2 + rc.Pick(4, "wl.rounds")
	events := []string{"client-close", "server-close", "both-close", "relay-outage", "lossy-reconnect", "relay-restart"}
	if rc.Pick(3, "relay.k.delerr") == 0 {
		// DelCipherBox calls fail (the relay's answer is lost; the box may or
		// may not be gone)
		rl.f.delErrPm = []int{300, 1000}[rc.Pick(2, "relay.k.delerrpm")]
		rc.Knob("relay.delerr", rl.f.delErrPm)
	}
	if rc.Pick(3, "relay.k.garbage") == 0 {
		// the first message ever received on a stream id is garbage: the
		// GBN handshake on it fails, Dial / Accept return an error (also the
		// first ones at a new rendezvous) and are called again
		rl.f.garbagePm = []int{300, 1000}[rc.Pick(2, "relay.k.garbagepm")]
		rc.Knob("relay.garbage-first", rl.f.garbagePm)
	}
	if rc.Pick(3, "knob.close-error") == 0 {
		// closing the client's transport reports an error (an already broken
		// websocket does): the connection must count as closed all the same
		st.closeErrPm = []int{300, 1000}[rc.Pick(2, "knob.close-errorpm")]
		rc.Knob("transport.close-error", st.closeErrPm)
	}
	rc.Knob("case", fmt.Sprintf("maxV=%d/%d rounds=%d", maxVC, maxVS, rounds))
	passSID, _ := st.S.data.SID() // the passphrase-derived rendezvous
	// nobody closes on completion by itself: the history decides
	st.afterDone = func(*instance) bool { return false }
	st.start()

	var history []string
	completed := func(minK int) (*instance, *instance) {
		// the latest client instance >= minK that is done, and its server peer
		st.C.mu.Lock()
		var ci *instance
		for _, in := range st.C.insts {
			if in.k >= minK && in.done {
				ci = in
			}
		}
		st.C.mu.Unlock()
		if ci == nil {
			return nil, nil
		}
		st.S.mu.Lock()
		defer st.S.mu.Unlock()
		for _, in := range st.S.insts {
			if in.done && in.peerK == ci.k {
				return ci, in
			}
		}
		return nil, nil
	}
	minK := 0
	bothPairedAtRound := -1
	for round := 0; round < rounds && !rc.Failed(); round++ {
		// (2) a fresh working connection carries data within the bound
		start := rc.Now()
		bound := start + 4*time.Minute
		var ci, si *instance
		for rc.Now() < bound && !rc.Failed() {
			time.Sleep(250 * time.Millisecond)
			if ci, si = completed(minK); ci != nil {
				break
			}
		}
		if rc.Failed() {
			break
		}
		if ci == nil {
			st.C.mu.Lock()
			ck := len(st.C.gotKeys)
			st.C.mu.Unlock()
			st.S.mu.Lock()
			sk := len(st.S.gotKeys)
			st.S.mu.Unlock()
			if one, who := st.oneSidedPairing(); one {
				rc.Violate("c11.one-sided-pairing", "keys-stored-on-one-side", "a handshake completed on both sides (data flowed both ways on that connection) yet %s: the two parties now look for each other at different rendezvous (history %v)", who, history)
				break
			}
			if (ck > 0) != (sk > 0) {
				// half-pairing (see DESIGN.md, C11 precondition)
				rc.Probe("c11.half-paired")
				break
			}
			phase := "steady"
			if bothPairedAtRound == round-1 && round > 0 {
				phase = "at-rendezvous-switch"
			} else if bothPairedAtRound < 0 {
				phase = "unpaired"
			}
			rc.Violate("c11.no-fresh-connection", fmt.Sprintf("after-%s/%s", last(history), phase), "round %d: %v after the previous connection ended (%v) no new connection has carried a complete transfer; history %v; client errors %v; server errors %v", round, rc.Now()-start, last(history), history, tail(st.C.errs, 3), tail(st.S.errs, 3))
			break
		}
		rc.Progress()
		// (3) once both sides have exchanged static keys, later connections
		// use the key-derived rendezvous and the KK pattern
		st.C.mu.Lock()
		ck := len(st.C.gotKeys)
		st.C.mu.Unlock()
		st.S.mu.Lock()
		sk := len(st.S.gotKeys)
		st.S.mu.Unlock()
		if ck > 0 && sk > 0 && bothPairedAtRound < 0 {
			bothPairedAtRound = round
		}
		if bothPairedAtRound >= 0 && round > bothPairedAtRound {
			cs, _ := st.C.data.SID()
			ss, _ := st.S.data.SID()
			switch {
			case cs != ss:
				rc.Violate("c11.rendezvous", "sids-differ", "after pairing the client derives session id %x.. and the server %x..", cs[:6], ss[:6])
			case cs == passSID:
				rc.Violate("c11.rendezvous", "still-passphrase-sid", "after pairing both sides still use the passphrase-derived session id")
			case ci.pattern != KK || si.pattern != KK:
				rc.Violate("c11.rendezvous", "pattern", "connection opened after pairing used handshake pattern %s/%s instead of KK", ci.pattern, si.pattern)
			default:
				c2s, s2c := GetSID(cs, false), GetSID(cs, true)
				craw, _ := ci.raw.(*ClientConn)
				sraw, _ := si.raw.(*ServerConn)
				if craw == nil || sraw == nil || craw.sendSID != c2s || sraw.receiveSID != c2s || craw.receiveSID != s2c || sraw.sendSID != s2c {
					rc.Violate("c11.rendezvous", "stream-wiring", "after pairing the stream ids of client and server do not line up pairwise crossed")
				} else if rl.sidCount(sidKey(c2s[:])) == 0 || rl.sidCount(sidKey(s2c[:])) == 0 {
					rc.Violate("c11.rendezvous", "relay-never-saw-new-sid", "after pairing the relay never saw the key-derived stream ids")
				} else {
					rc.Probe("c11.reconnected-on-key-derived-rendezvous")
				}
			}
		} else if maxV < 2 && round > 0 {
			if ci.pattern != XX {
				rc.Violate("c11.rendezvous", "switch-without-pairing", "version %d handshake, yet a later connection used pattern %s", maxV, ci.pattern)
			}
		}
		if round == rounds-1 {
			break
		}
		// next event of the history
		ev := events[rc.Pick(len(events), "wl.event")]
		if ev == "server-close" && bothPairedAtRound == round && rc.Pick(4, "wl.keep-server-close") != 0 {
			// a server-side close of the pairing connection runs into the
			// recorded finding (see known_findings.json) and ends the run;
			// keep it, but let most histories go on
			ev = "client-close"
		}
		delay := time.Duration(rc.Pick(4000, "wl.event-delay")) * time.Millisecond
		time.Sleep(delay)
		history = append(history, ev)
		simrt.NoteSig("event %s", ev)
		switch ev {
		case "client-close":
			ci.conn.Close()
		case "server-close":
			si.conn.Close()
		case "both-close":
			d := make(chan struct{}, 2)
			go func() { ci.conn.Close(); d <- struct{}{} }()
			go func() { si.conn.Close(); d <- struct{}{} }()
			<-d
			<-d
		case "lossy-reconnect":
			// the relay drops messages for a while and the client ends the
			// connection in the middle of that: the reconnect (GBN and Noise
			// handshakes) happens over a lossy relay and may fail a few times
			rl.lossy(rc.Now()+time.Duration(5+rc.Pick(20, "wl.lossy"))*time.Second, 100+100*rc.Pick(3, "wl.lossrate"))
			time.Sleep(time.Duration(rc.Pick(2000, "wl.lossy-close-at")) * time.Millisecond)
			ci.conn.Close()
		case "relay-outage", "relay-restart":
			d := time.Duration(3+rc.Pick(20, "wl.outage")) * time.Second
			if ev == "relay-restart" {
				// the relay process is restarted: mailboxes and their
				// contents are gone; sometimes right after one side closed
				d = time.Duration(rc.Pick(8000, "wl.restart")) * time.Millisecond
				switch rc.Pick(3, "wl.restart-with-close") {
				case 1:
					ci.conn.Close()
				case 2:
					si.conn.Close()
				}
				rl.restart(rc.Now() + d)
			} else {
				rl.outage(rc.Now() + d)
			}
			// the connection may or may not survive the outage; if it does,
			// the client ends it afterwards so that the history goes on
			time.Sleep(d + time.Duration(1+rc.Pick(30, "wl.after-outage"))*time.Second)
			if x := st.C.snapshot(ci); x.closedAt == 0 {
				rc.Probe("c11.connection-survived-outage")
				ci.conn.Close()
			} else {
				rc.Probe("c11.connection-killed-by-outage")
			}
		}
		rc.Fault("event-" + ev)
		minK = ci.k + 1
	}
	rc.Sample("maxVersion=%d rounds=%d history=%v pairedAtRound=%d", maxV, rounds, history, bothPairedAtRound)
	// ---- a different client presenting only the original passphrase --------
	if bothPairedAtRound >= 0 && !rc.Failed() {
		ictx, icancel := context.WithCancel(context.Background())
		idata := NewConnData(pr.ecdh(), nil, st.C.data.PassphraseEntropy(), nil, nil, nil)
		icli := newSimClient(ictx, rl, idata)
		icreds := NewNoiseGrpcConn(idata)
		res := make(chan string, 1)
		go func() {
			raw, err := icli.Dial(ictx, "")
			if err != nil {
				res <- "dial failed: " + err.Error()
				return
			}
			_, _, err = icreds.ClientHandshake(ictx, "", raw)
			if err != nil {
				raw.Close()
				res <- "handshake failed: " + err.Error()
				return
			}
			res <- "ADMITTED"
		}()
		select {
		case r := <-res:
			if r == "ADMITTED" {
				rc.Violate("c11.unpaired-client-admitted", "passphrase-only", "after the paired parties moved to the key-derived rendezvous a second client holding only the original passphrase completed a handshake with the server")
			} else {
				rc.Probe("c11.intruder-rejected")
			}
		case <-time.After(3 * time.Minute):
			rc.Probe("c11.intruder-never-connects")
		}
		icancel()
	}
	st.shutdown()
}

func last(h []string) string {
	if len(h) == 0 {
		return "start"
	}
	return h[len(h)-1]
}
