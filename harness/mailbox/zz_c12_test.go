package mailbox

// C12 (mailbox part) - Close on the mailbox connections (ClientConn /
// ServerConn under a NoiseGrpcConn) is idempotent, bounded, wakes blocked
// callers, tells the peer, and leaves no goroutine or timer behind.

import (
	"fmt"
	"net"
	"strings"
	"time"

	"simrt"
)

func init() {
	simrt.Register(&simrt.Scenario{
		Prop: "C12", Name: "mb-close", Count: tiered(400, 160000),
		Run: c12Mailbox, MaxOps: 6 << 20, Horizon: 4 * time.Hour,
		Doc: "full stack over the stub relay; at a tape-chosen moment of an established connection (idle, mid-transfer) the client side, the server side or both call Close (1-2 concurrent callers, then once more), in one run of five with the relay down or restarted (mailboxes lost) at that moment; bounded return, both applications' blocked Read/Write fail, and after the listener and dialer are shut down no goroutine or ticker of gbn/mailbox is left",
	})
}

func relayCause(down string) string {
	if down == "" {
		return ""
	}
	return "/relay-" + down
}

func c12Mailbox(rc *simrt.RunCtx) {
	pr := newPrng(rc.Seed())
	installEphemeralGen(pr)
	rf := relayFaults{latMin: time.Millisecond, latMax: time.Duration(2+rc.Pick(20, "relay.latmax")) * time.Millisecond}
	// the send side of a gRPC stream is asynchronous: Send queues and
	// returns, cancelling the stream's context resets the stream and drops
	// what is still queued
	rf.asyncSend = []time.Duration{0, 0, time.Millisecond, 5 * time.Millisecond}[rc.Pick(4, "relay.k.async-send")]
	rl := newRelay(rc, rf)
	maxV := []byte{1, 2}[rc.Pick(2, "knob.maxversion")]
	st := newStack(rc, rl, pr, 50, maxV)
	st.eager = rc.Pick(2, "knob.eager") == 1
	big := rc.Pick(2, "wl.big") == 1
	st.planBytes = func(string, int) int {
		if big {
			return 200000 + rc.Pick(800000, "wl.plan")
		}
		return 16 + rc.Pick(2000, "wl.plan")
	}
	st.afterDone = func(*instance) bool { return false }
	who := []string{"client", "server", "both"}[rc.Pick(3, "wl.who")]
	callers := 1 + rc.Pick(2, "wl.callers")
	rc.Knob("case", fmt.Sprintf("maxV=%d eager=%v big=%v who=%s callers=%d async-send=%v", maxV, st.eager, big, who, callers, rf.asyncSend))
	rc.Sample("maxVersion=%d eager=%v big-transfer=%v close by %s with %d concurrent callers", maxV, st.eager, big, who, callers)
	st.start()
	// wait for an established pair
	var ci, si *instance
	for deadline := rc.Now() + 2*time.Minute; rc.Now() < deadline; {
		time.Sleep(100 * time.Millisecond)
		ci, si = st.C.current(), st.S.current()
		if ci != nil && si != nil {
			break
		}
	}
	if ci == nil || si == nil {
		rc.HarnessError("no connection established over a fault-free relay within 2 virtual minutes; client errors %v server errors %v", tail(st.C.errs, 3), tail(st.S.errs, 3))
		st.shutdown()
		return
	}
	if maxV >= 2 && rc.Pick(4, "wl.past-pairing") != 0 {
		// move past the pairing connection (whose server-side close runs into
		// the recorded finding): the client ends it, the experiment is done on
		// the key-based connection that follows
		time.Sleep(500 * time.Millisecond)
		ci.conn.Close()
		var c2, s2 *instance
		for deadline := rc.Now() + 3*time.Minute; rc.Now() < deadline; {
			time.Sleep(100 * time.Millisecond)
			c2, s2 = st.C.current(), st.S.current()
			if c2 != nil && s2 != nil && c2.k > ci.k && s2.k > si.k {
				break
			}
		}
		if c2 == nil || s2 == nil || c2.k == ci.k || s2.k == si.k {
			rc.Probe("c12.mb-no-second-connection")
			st.shutdown()
			return
		}
		ci, si = c2, s2
	}
	time.Sleep(time.Duration(rc.Pick(3000, "wl.close-at")) * time.Millisecond)
	// sometimes the relay is down (all calls fail) or has been restarted (all
	// mailboxes lost as well) when Close is called, for a while or for good:
	// the FIN cannot travel, Close must return all the same
	relayDown := ""
	switch rc.Pick(5, "wl.relaydown") {
	case 3:
		relayDown = "outage"
	case 4:
		relayDown = "restart"
	}
	if relayDown != "" {
		until := rc.Now() + time.Duration(2+rc.Pick(30, "wl.down-for"))*time.Second
		if rc.Pick(2, "wl.down-forever") == 1 {
			until = rc.Now() + 3*time.Hour
		}
		if relayDown == "outage" {
			rl.outage(until)
		} else {
			rl.restart(until)
		}
		rc.Knob("relay-down", relayDown)
		// long enough for data / keepalive traffic to run into the failure
		time.Sleep(time.Duration(rc.Pick(15000, "wl.down-before-close")) * time.Millisecond)
	}
	tClose := rc.Now()
	type res struct {
		who string
		d   time.Duration
	}
	out := make(chan res, 8)
	n := 0
	closeOn := func(name string, c net.Conn) {
		for i := 0; i < callers; i++ {
			n++
			go func() {
				t0 := rc.Now()
				c.Close()
				out <- res{name, rc.Now() - t0}
			}()
		}
	}
	if who == "client" || who == "both" {
		closeOn("client", ci.conn)
	}
	if who == "server" || who == "both" {
		closeOn("server", si.conn)
	}
	bound := 6 * time.Second
	for i := 0; i < n; i++ {
		select {
		case r := <-out:
			if r.d > bound {
				rc.Violate("c12.close-slow", "mailbox/"+r.who+relayCause(relayDown), "%s Close took %v (bound %v)", r.who, r.d, bound)
			}
		case <-time.After(bound + 30*time.Second):
			rc.Violate("c12.close-hangs", "mailbox/"+who+relayCause(relayDown), "a Close call on a mailbox connection has not returned %v after it was invoked", rc.Now()-tClose)
			i = n
		}
	}
	if rc.Failed() {
		st.shutdown()
		return
	}
	if relayDown != "" {
		// the closing side's own calls must fail; the peer cannot be told
		// while the relay is down (its keepalive is C13's business)
		time.Sleep(2 * time.Second)
		a, b := st.C.snapshot(ci), st.S.snapshot(si)
		if (who != "server" && a.closedAt == 0) || (who != "client" && b.closedAt == 0) {
			rc.Violate("c12.own-calls-hang", "mailbox/"+who+relayCause(relayDown), "2 s after Close returned the closing application's own blocked Read/Write have not failed (client closed=%v server closed=%v)", a.closedAt > 0, b.closedAt > 0)
		} else {
			rc.Probe("c12.mb-closed-with-relay-down")
			rc.Progress()
		}
		st.shutdown()
		return
	}
	// both applications must see their blocked Read/Write fail: the closing
	// side at once, the peer through the FIN
	// (3 s: the FIN timeout plus relay latency and a margin - less than any
	// keepalive could take, which needs a pong timeout of 3 s after its ping:
	// the peer has to learn of the closure from the FIN itself)
	peerBound := tClose + 3*time.Second
	for rc.Now() < peerBound {
		a, b := st.C.snapshot(ci), st.S.snapshot(si)
		if a.closedAt > 0 && b.closedAt > 0 {
			break
		}
		time.Sleep(100 * time.Millisecond)
	}
	a, b := st.C.snapshot(ci), st.S.snapshot(si)
	if a.closedAt == 0 || b.closedAt == 0 {
		side := "client"
		if a.closedAt > 0 {
			side = "server"
		}
		phase := "steady"
		if maxV >= 2 && ci.k == 0 && ci.pattern == XX {
			// the connection being closed is the pairing connection: the
			// server leaves the passphrase-derived rendezvous right after
			phase = "at-rendezvous-switch"
		}
		rc.Violate("c12.peer-hangs", "mailbox/"+side+"/closed-by-"+who+"/"+phase, "%v after Close by %s the %s application still has a blocked Read/Write on the connection (client instance closed=%v, server instance closed=%v)", rc.Now()-tClose, who, side, a.closedAt > 0, b.closedAt > 0)
		st.shutdown()
		return
	}
	rc.Probe("c12.mb-both-sides-released")
	// once more: idempotent
	ci.conn.Close()
	si.conn.Close()
	ci.raw.Close()
	si.raw.Close()
	time.Sleep(time.Duration(rc.Pick(5000, "wl.linger")) * time.Millisecond)
	st.shutdown()
	time.Sleep(10 * time.Second)
	var leaked []string
	for _, l := range simrt.Live() {
		if strings.HasPrefix(l, "zz_") || strings.HasPrefix(l, "main") {
			continue
		}
		leaked = append(leaked, l)
	}
	if len(leaked) > 0 {
		site := leaked[0]
		if k := strings.Index(site, "@"); k > 0 {
			site = site[:k]
		}
		rc.Violate("c12.leak", "mailbox/"+site, "%d goroutine(s) of gbn/mailbox still alive 10 virtual seconds after every connection, the listener and the dialer were shut down: %v", len(leaked), leaked)
		return
	}
	var ticking []string
	for _, t := range simrt.TickingTickers(time.Hour) {
		if !strings.HasPrefix(t, "zz_") {
			ticking = append(ticking, t)
		}
	}
	if len(ticking) > 0 {
		rc.Violate("c12.leak", "mailbox/ticker "+ticking[0], "ticker(s) created at %v still tick after shutdown", ticking)
		return
	}
	rc.Progress()
	rc.Fault("mb-close-" + who)
}
