package mailbox

// C02 - after a successful handshake, whatever a party in control of the relay
// does to the ciphertext (flip bits, truncate, drop, duplicate, reorder,
// replay or reflect records, inject bytes) the plaintext returned to the
// reader is always a prefix of what the authentic peer wrote in that
// direction; the first deviation surfaces as a read error.

import (
	"bytes"
	"fmt"
	"io"
	"sync"
	"time"

	"simrt"
)

var c02Sizes = []int{0, 1, 17, 65535}
var c02Index = []int{0, 499, 500}
var c02Distances = []int{1, 2, 3, 63, 64, 65, 127, 128, 129, 255, 256, 257, 383, 384, 385, 499, 500, 501, 511, 512, 513, 999, 1000, 1001, 1023, 1024, 1025}

func init() {
	simrt.Register(&simrt.Scenario{
		Prop: "C02", Name: "bit-flips", Enumerated: true, Count: fixed(len(c02Sizes) * len(c02Index) * 2),
		Run: c02BitFlips, MaxOps: 1 << 40, Serial: true, Horizon: time.Hour,
		Doc: "every single-bit flip of one full wire record (18-byte header + body + 16-byte MAC) for body sizes {0,1,17,65535}, at record index {0,499,500} (around the first key rotation), XX and KK sessions (quick tier: body bits of the 65535-byte record sampled every 101st bit, thorough: all)",
	})
	simrt.Register(&simrt.Scenario{
		Prop: "C02", Name: "replay-at-distance", Enumerated: true, Count: fixed(2 * 2 * len(c02Distances)),
		Run: c02DistanceReplay, MaxOps: 1 << 40, Serial: true, Horizon: time.Hour,
		Doc: "a recorded record k is delivered again in place of record k+d, for every distance d in {1,2,3,63,64,65,127,128,129,255,256,257,383,384,385,499,500,501,511,512,513,999,1000,1001,1023,1024,1025} (every place where a truncated or wrapping nonce counter would repeat), k in {0,5}, XX and KK: never returned as valid",
	})
	simrt.Register(&simrt.Scenario{
		Prop: "C02", Name: "replay-across-rotation", Enumerated: true, Count: fixed(2 * 3 * 4),
		Run: c02RotationReplay, MaxOps: 1 << 40, Serial: true, Horizon: time.Hour,
		Doc: "long streams (two key rotations): the relay delivers records 0..k+499 (or k+999) and then, in place of the next record, replays record k - the record that used the same nonce position one (two) key epochs earlier - for k in {0,1,2,499}, XX and KK, three equal-plaintext / distinct-plaintext layouts",
	})
	simrt.Register(&simrt.Scenario{
		Prop: "C02", Name: "stall-inside-record", Enumerated: true, Count: fixed(3 * 2 * len(c02StallVals) * 37),
		Run: c02Stall, MaxOps: 1 << 20, Horizon: time.Hour,
		Doc: "the relay withholds the stream at every byte offset 0..36 inside a 2-byte record (18-byte header, 18-byte body) until the reader's read deadline has fired, then delivers everything; the reader keeps calling Read. Enumerated over the record's content (big-endian 0, 1, 2, 3, 18, 300 - values that a parser which lost its place would take for lengths), Machine / NoiseConn / NoiseGrpcConn, XX and KK: what is returned stays a prefix of what the peer wrote",
	})
	simrt.Register(&simrt.Scenario{
		Prop: "C02", Name: "edit-scripts", Count: tiered(12000, 1600000),
		Run: c02Scripts, MaxOps: 2 << 20, Horizon: time.Hour,
		Doc: "both directions of an XX/KK session exposed through Machine, NoiseConn or NoiseGrpcConn; random scripts of 1-4 edits (drop, duplicate, swap, replay-earlier, reflect-other-direction, truncate, inject, bit flip, at record boundaries and mid-record offsets) applied to the ciphertext stream; the reader's output must be a prefix of what was written and stay failed after the first error",
	})
}

// c02Advance writes and reads k records from w to r so that the cipher states
// sit at record index k.
func c02Advance(w, r *Machine, k int) error {
	var buf bytes.Buffer
	for i := 0; i < k; i++ {
		if err := w.WriteMessage([]byte{byte(i)}); err != nil {
			return err
		}
		if _, err := w.Flush(&buf); err != nil {
			return err
		}
		if _, err := r.ReadMessage(&buf); err != nil {
			return err
		}
	}
	return nil
}

func c02BitFlips(rc *simrt.RunCtx) {
	idx := rc.Idx()
	size := c02Sizes[idx%len(c02Sizes)]
	recIdx := c02Index[(idx/len(c02Sizes))%len(c02Index)]
	kk := (idx/(len(c02Sizes)*len(c02Index)))%2 == 1
	s := establish(rc, kk, 64)
	if s == nil {
		return
	}
	w, r := s.cli.conn.noise, s.srv.conn.noise
	if err := c02Advance(w, r, recIdx); err != nil {
		rc.HarnessError("advancing to record %d: %v", recIdx, err)
		return
	}
	plain := marker(uint64(idx)+5, size)
	var rec bytes.Buffer
	if err := w.WriteMessage(plain); err != nil {
		rc.HarnessError("WriteMessage: %v", err)
		return
	}
	if _, err := w.Flush(&rec); err != nil {
		rc.HarnessError("Flush: %v", err)
		return
	}
	wire := rec.Bytes()
	// sanity: the untouched record decrypts on a copy of the reader
	base := *r
	{
		m := base
		got, err := m.ReadMessage(bytes.NewReader(wire))
		if err != nil || !eqBytes(got, plain) {
			rc.HarnessError("untouched record does not decrypt: %v", err)
			return
		}
	}
	stride := 1
	if size == 65535 && simrt.Tier() != "thorough" {
		stride = 101
	}
	flips, accepted := 0, 0
	mut := make([]byte, len(wire))
	for bit := 0; bit < len(wire)*8; bit++ {
		if bit >= encHeaderSize*8 && (bit-encHeaderSize*8)%stride != 0 {
			continue
		}
		copy(mut, wire)
		mut[bit/8] ^= 1 << (bit % 8)
		m := base // fresh copy of the reader's state
		got, err := m.ReadMessage(bytes.NewReader(mut))
		flips++
		if err == nil {
			accepted++
			rc.Violate("c02.bitflip-accepted", "flipped-record-returned", "record %d (%d-byte body, kk=%v): with bit %d of wire byte %d flipped ReadMessage returned %d bytes without error (equal to the original: %v)", recIdx, size, kk, bit%8, bit/8, len(got), eqBytes(got, plain))
			return
		}
	}
	rc.Sample("kk=%v record #%d body=%dB: %d of %d wire bits flipped one at a time, %d accepted", kk, recIdx, size, flips, len(wire)*8, accepted)
	rc.ProbeN("c02.bit-flips", flips)
	rc.Progress()
	rc.Fault(fmt.Sprintf("flips-%d", idx))
}

type c02Edit struct {
	kind string
	i, j int
	off  int
	data []byte
}

// c02Apply builds the byte stream the reader will see from the authentic
// records of this direction (own) and of the opposite one (other).
func c02Apply(own, other [][]byte, edits []c02Edit) ([]byte, int) {
	type unit struct {
		b      []byte
		origin int // index of the authentic record, -1 if not authentic in place
	}
	var units []unit
	for i, r := range own {
		units = append(units, unit{r, i})
	}
	for _, e := range edits {
		if len(units) == 0 {
			break
		}
		i := e.i % len(units)
		switch e.kind {
		case "drop":
			units = append(units[:i], units[i+1:]...)
		case "dup":
			units = append(units[:i+1], append([]unit{{units[i].b, -1}}, units[i+1:]...)...)
		case "swap":
			if i+1 < len(units) {
				units[i], units[i+1] = unit{units[i+1].b, -1}, unit{units[i].b, -1}
			}
		case "replay":
			if i > 0 {
				units = append(units[:i], append([]unit{{units[e.j%i].b, -1}}, units[i:]...)...)
			}
		case "reflect":
			if len(other) > 0 {
				units = append(units[:i], append([]unit{{other[e.j%len(other)], -1}}, units[i:]...)...)
			}
		case "truncate":
			b := units[i].b
			units[i] = unit{b[:e.off%(len(b)+1)], -1}
			units = units[:i+1]
		case "inject":
			units = append(units[:i], append([]unit{{e.data, -1}}, units[i:]...)...)
		case "flip":
			b := append([]byte(nil), units[i].b...)
			if len(b) > 0 {
				b[e.off%len(b)] ^= byte(1 << (e.j % 8))
			}
			units[i] = unit{b, -1}
		case "splice": // cut bytes out of the middle of a record
			b := units[i].b
			if len(b) > 2 {
				a := e.off % (len(b) - 1)
				units[i] = unit{append(append([]byte(nil), b[:a]...), b[a+1:]...), -1}
			}
		}
	}
	// the number of leading records that are still authentic and in place
	intact := 0
	for k, u := range units {
		if u.origin == k {
			intact++
		} else {
			break
		}
	}
	var out []byte
	for _, u := range units {
		out = append(out, u.b...)
	}
	return out, intact
}

func c02Scripts(rc *simrt.RunCtx) {
	kk := rc.Pick(2, "knob.kk") == 1
	apis := []string{"machine", "grpcconn", "noiseconn"}
	api := apis[rc.Pick(len(apis), "knob.api")]
	s := establish(rc, kk, 100)
	if s == nil {
		return
	}
	// write phase: both directions produce their records; nothing is
	// delivered yet
	s.ca.out.swallow()
	s.cb.out.swallow()
	firstA, firstB := s.ca.out.segCount(), s.cb.out.segCount()
	var ncCli, ncSrv *NoiseConn
	if api == "noiseconn" {
		ncCli = &NoiseConn{conn: s.ca, noise: s.cli.conn.noise}
		ncSrv = &NoiseConn{conn: s.cb, noise: s.srv.conn.noise}
	}
	mkPlain := func(tag, i int) []byte {
		size := []int{0, 1, 5, 40, 300, 2000}[rc.Pick(6, "wl.size")]
		if rc.Pick(40, "wl.huge") == 0 {
			size = 65535
		}
		return marker(uint64(tag*100000+i+1), size)
	}
	write := func(who int, p []byte) error {
		switch api {
		case "machine":
			m := s.cli.conn.noise
			c := s.ca
			if who == 1 {
				m, c = s.srv.conn.noise, s.cb
			}
			if err := m.WriteMessage(p); err != nil {
				return err
			}
			_, err := m.Flush(c)
			return err
		case "grpcconn":
			c := s.cli.net
			if who == 1 {
				c = s.srv.net
			}
			_, err := c.Write(p)
			return err
		default:
			c := ncCli
			if who == 1 {
				c = ncSrv
			}
			_, err := c.Write(p)
			return err
		}
	}
	nA, nB := 1+rc.Pick(12, "wl.recsA"), rc.Pick(8, "wl.recsB")
	var sentA, sentB [][]byte
	for i := 0; i < nA; i++ {
		p := mkPlain(1, i)
		if err := write(0, p); err != nil {
			rc.HarnessError("write A: %v", err)
			return
		}
		sentA = append(sentA, p)
	}
	for i := 0; i < nB; i++ {
		p := mkPlain(2, i)
		if err := write(1, p); err != nil {
			rc.HarnessError("write B: %v", err)
			return
		}
		sentB = append(sentB, p)
	}
	var recA, recB [][]byte
	for i := 0; i < nA; i++ {
		recA = append(recA, recordBytes(s.ca.out, firstA, i))
	}
	for i := 0; i < nB; i++ {
		recB = append(recB, recordBytes(s.cb.out, firstB, i))
	}
	// the adversary's script for direction A->B (and sometimes B->A too)
	kinds := []string{"drop", "dup", "swap", "replay", "reflect", "truncate", "inject", "flip", "splice"}
	mkScript := func(label string) []c02Edit {
		var es []c02Edit
		for k := 0; k < 1+rc.Pick(4, label+".n"); k++ {
			e := c02Edit{kind: kinds[rc.Pick(len(kinds), label+".kind")], i: rc.Pick(64, label+".i"), j: rc.Pick(64, label+".j"), off: rc.Pick(1<<16, label+".off")}
			if e.kind == "inject" {
				e.data = s.pr.bytes(1 + rc.Pick(60, label+".inj"))
			}
			es = append(es, e)
			rc.Fault("edit-" + e.kind)
		}
		return es
	}
	scriptA := mkScript("advA")
	var scriptB []c02Edit
	if nB > 0 && rc.Pick(2, "advB.on") == 1 {
		scriptB = mkScript("advB")
	}
	streamA, intactA := c02Apply(recA, recB, scriptA)
	streamB, intactB := c02Apply(recB, recA, scriptB)
	rc.Knob("case", fmt.Sprintf("kk=%v api=%s recs=%d/%d scriptA=%v scriptB=%v", kk, api, nA, nB, kindsOf(scriptA), kindsOf(scriptB)))
	rc.Sample("kk=%v api=%s A->B %d records script %v (first %d intact); B->A %d records script %v", kk, api, nA, kindsOf(scriptA), intactA, nB, kindsOf(scriptB))
	s.ca.out.inject(streamA)
	s.cb.out.inject(streamB)
	// read phase: two reader tasks, each until its first error plus a few
	// more attempts
	type res struct {
		got      []byte
		recs     int
		firstErr error
		after    int // successful reads after the first error
	}
	// read buffers: large ones (one record per Read), or small and varying
	// ones, so that a record is handed out over several Read calls
	smallReads := rc.Pick(2, "rd.small-buffers") == 1
	bufSize := func() int {
		if smallReads {
			return c15ReadSize(rc)
		}
		return 70000
	}
	var keptMu sync.Mutex
	var kept, keptCopy [][]byte
	read := func(who int, want [][]byte) *res {
		out := &res{}
		dl := time.Now().Add(2 * time.Second)
		s.ca.SetReadDeadline(dl)
		s.cb.SetReadDeadline(dl)
		attemptsAfter := 0
		for attemptsAfter < 4 {
			var b []byte
			var err error
			switch api {
			case "machine":
				m, c := s.srv.conn.noise, s.cb
				if who == 1 {
					m, c = s.cli.conn.noise, s.ca
				}
				b, err = m.ReadMessage(c)
				if err == nil {
					// the caller keeps the slice it was given: a later
					// record must not change it
					keptMu.Lock()
					kept = append(kept, b)
					keptCopy = append(keptCopy, append([]byte(nil), b...))
					keptMu.Unlock()
				}
			case "grpcconn":
				c := s.srv.net
				if who == 1 {
					c = s.cli.net
				}
				buf := make([]byte, bufSize())
				var n int
				n, err = c.Read(buf)
				b = buf[:n]
			default:
				c := ncSrv
				if who == 1 {
					c = ncCli
				}
				buf := make([]byte, bufSize())
				var n int
				n, err = c.Read(buf)
				b = buf[:n]
			}
			if err != nil {
				if out.firstErr == nil {
					out.firstErr = err
				}
				attemptsAfter++
				continue
			}
			if out.firstErr != nil {
				out.after++
			}
			out.got = append(out.got, b...)
			out.recs++
		}
		return out
	}
	doneA, doneB := make(chan *res, 1), make(chan *res, 1)
	go func() { doneA <- read(0, sentA) }()
	go func() { doneB <- read(1, sentB) }()
	rA, rB := <-doneA, <-doneB
	judge := func(name string, r *res, sent [][]byte, intact int, script []c02Edit) {
		if rc.Failed() {
			return
		}
		var all []byte
		for _, p := range sent {
			all = append(all, p...)
		}
		cause := "clean"
		if len(script) > 0 {
			cause = script[0].kind
		}
		if !hasPrefix(all, r.got) {
			rc.Violate("c02.prefix", cause, "%s via %s (kk=%v): the reader returned %d bytes that are not a prefix of the %d bytes written (first difference at byte %d); edits %v", name, api, kk, len(r.got), len(all), firstDiff(r.got, all), kindsOf(script))
			return
		}
		var intactBytes int
		for i := 0; i < intact && i < len(sent); i++ {
			intactBytes += len(sent[i])
		}
		if len(script) == 0 && len(r.got) != len(all) {
			rc.Violate("c02.clean-stream-short", "clean", "%s via %s: untouched ciphertext, yet only %d of %d bytes were returned (first error %v)", name, api, len(r.got), len(all), r.firstErr)
			return
		}
		if r.after > 0 {
			rc.Violate("c02.valid-after-error", cause, "%s via %s (kk=%v): %d reads succeeded after the first read error (%v); edits %v", name, api, kk, r.after, r.firstErr, kindsOf(script))
			return
		}
		if len(r.got) >= intactBytes {
			rc.Probe("c02.intact-prefix-delivered")
		}
	}
	judge("A->B", rA, sentA, intactA, scriptA)
	judge("B->A", rB, sentB, intactB, scriptB)
	for i := range kept {
		if !rc.Failed() && !eqBytes(kept[i], keptCopy[i]) {
			rc.Violate("c02.returned-message-changed", "aliased-buffer", "via %s (kk=%v): message #%d returned by ReadMessage (%d bytes) was changed afterwards by the reading of later records (first difference at byte %d): data handed to the caller as valid no longer is what the peer wrote", api, kk, i, len(keptCopy[i]), firstDiff(kept[i], keptCopy[i]))
		}
	}
	rc.Progress()
	_ = io.EOF
}

func kindsOf(es []c02Edit) []string {
	var out []string
	for _, e := range es {
		out = append(out, e.kind)
	}
	return out
}

func c02RotationReplay(rc *simrt.RunCtx) {
	idx := rc.Idx()
	kk := idx%2 == 1
	layout := (idx / 2) % 3 // 0: distinct plaintexts, 1: all equal, 2: empty records
	k := []int{0, 1, 2, 499}[(idx/6)%4]
	s := establish(rc, kk, 32)
	if s == nil {
		return
	}
	w, r := s.cli.conn.noise, s.srv.conn.noise
	total := 1502
	var recs [][]byte
	var plains [][]byte
	for i := 0; i < total; i++ {
		var p []byte
		switch layout {
		case 0:
			p = marker(uint64(i)+31, 24)
		case 1:
			p = marker(7, 24)
		}
		var buf bytes.Buffer
		if err := w.WriteMessage(p); err != nil {
			rc.HarnessError("WriteMessage: %v", err)
			return
		}
		if _, err := w.Flush(&buf); err != nil {
			rc.HarnessError("Flush: %v", err)
			return
		}
		recs = append(recs, append([]byte(nil), buf.Bytes()...))
		plains = append(plains, p)
	}
	for _, epochs := range []int{1, 2} {
		pos := k + 500*epochs
		if pos+1 >= total {
			continue
		}
		m := *r // every attempt starts from the reader's post-handshake state
		var stream bytes.Buffer
		for i := 0; i < pos; i++ {
			stream.Write(recs[i])
		}
		stream.Write(recs[k]) // the replay, where record pos belongs
		stream.Write(recs[pos+1])
		for i := 0; i < pos; i++ {
			got, err := m.ReadMessage(&stream)
			if err != nil || !eqBytes(got, plains[i]) {
				rc.Violate("c02.rotation", "authentic-record-rejected", "kk=%v: authentic record %d of a long stream does not decrypt: %v", kk, i, err)
				return
			}
		}
		got, err := m.ReadMessage(&stream)
		if err == nil {
			rc.Violate("c02.replay-accepted", "replay-across-rotation", "kk=%v layout %d: record %d replayed in place of record %d (%d key epoch(s) later, same nonce position) was returned as valid (%d bytes, equal to the original: %v)", kk, layout, k, pos, epochs, len(got), eqBytes(got, plains[k]))
			return
		}
		if got2, err2 := m.ReadMessage(&stream); err2 == nil {
			rc.Violate("c02.valid-after-error", "replay-across-rotation", "kk=%v: after the rejected replay the next record was returned as valid (%d bytes)", kk, len(got2))
			return
		}
	}
	rc.Sample("kk=%v layout=%d: record %d replayed at positions %d and %d of a %d-record stream: rejected", kk, layout, k, k+500, k+1000, total)
	rc.Progress()
	rc.Fault(fmt.Sprintf("rotation-replay-%d", idx))
}

func c02DistanceReplay(rc *simrt.RunCtx) {
	idx := rc.Idx()
	kk := idx%2 == 1
	k := []int{0, 5}[(idx/2)%2]
	d := c02Distances[(idx/4)%len(c02Distances)]
	s := establish(rc, kk, 32)
	if s == nil {
		return
	}
	w, r := s.cli.conn.noise, s.srv.conn.noise
	pos := k + d
	var recs [][]byte
	for i := 0; i <= pos+1; i++ {
		var buf bytes.Buffer
		if err := w.WriteMessage(marker(uint64(i%7)+3, 20)); err != nil {
			rc.HarnessError("WriteMessage: %v", err)
			return
		}
		if _, err := w.Flush(&buf); err != nil {
			rc.HarnessError("Flush: %v", err)
			return
		}
		recs = append(recs, append([]byte(nil), buf.Bytes()...))
	}
	var stream bytes.Buffer
	for i := 0; i < pos; i++ {
		stream.Write(recs[i])
	}
	stream.Write(recs[k])
	stream.Write(recs[pos+1])
	for i := 0; i < pos; i++ {
		if _, err := r.ReadMessage(&stream); err != nil {
			rc.Violate("c02.rotation", "authentic-record-rejected", "kk=%v: authentic record %d of a long stream does not decrypt: %v", kk, i, err)
			return
		}
	}
	if got, err := r.ReadMessage(&stream); err == nil {
		rc.Violate("c02.replay-accepted", "replay-at-distance", "kk=%v: record %d delivered again in place of record %d (distance %d) was returned as valid (%d bytes)", kk, k, pos, d, len(got))
		return
	}
	if _, err := r.ReadMessage(&stream); err == nil {
		rc.Violate("c02.valid-after-error", "replay-at-distance", "kk=%v: after the rejected replay at distance %d the next record was returned as valid", kk, d)
		return
	}
	rc.Sample("kk=%v: record %d replayed in place of record %d (distance %d): rejected", kk, k, pos, d)
	rc.Progress()
	rc.Fault(fmt.Sprintf("replay-distance-%d", idx))
}

var c02StallVals = []int{0, 1, 2, 3, 18, 300}

// c02Stall: a read that times out in the middle of a record - the relay just
// withholds the rest for a while - must not make a later read return
// anything the peer did not write at that place.
func c02Stall(rc *simrt.RunCtx) {
	idx := rc.Idx()
	cut := idx % 37
	v := c02StallVals[(idx/37)%len(c02StallVals)]
	api := []string{"machine", "grpcconn", "noiseconn"}[(idx/(37*len(c02StallVals)))%3]
	kk := idx/(37*len(c02StallVals)*3) == 1
	s := establish(rc, kk, 100)
	if s == nil {
		return
	}
	s.ca.out.swallow()
	first := s.ca.out.segCount()
	var ncCli, ncSrv *NoiseConn
	if api == "noiseconn" {
		ncCli = &NoiseConn{conn: s.ca, noise: s.cli.conn.noise}
		ncSrv = &NoiseConn{conn: s.cb, noise: s.srv.conn.noise}
	}
	plains := [][]byte{marker(1, 40), {byte(v >> 8), byte(v)}, marker(3, 300), marker(4, 5)}
	for i, p := range plains {
		var err error
		switch api {
		case "machine":
			if err = s.cli.conn.noise.WriteMessage(p); err == nil {
				_, err = s.cli.conn.noise.Flush(s.ca)
			}
		case "grpcconn":
			_, err = s.cli.net.Write(p)
		default:
			_, err = ncCli.Write(p)
		}
		if err != nil {
			rc.HarnessError("write %d: %v", i, err)
			return
		}
	}
	var stream, all []byte
	var offs []int
	for i, p := range plains {
		offs = append(offs, len(stream))
		stream = append(stream, recordBytes(s.ca.out, first, i)...)
		all = append(all, p...)
	}
	at := offs[1] + cut
	rc.Knob("case", fmt.Sprintf("kk=%v api=%s record=%04x stall-at=%d", kk, api, v, cut))
	rc.Sample("kk=%v api=%s: 2-byte record %04x, stream withheld %d bytes into it until the reader timed out", kk, api, v, cut)
	s.ca.out.inject(stream[:at])
	var got []byte
	errs, timeouts := 0, 0
	released := false
	for attempts := 0; attempts < 40 && errs < 4; attempts++ {
		s.cb.SetReadDeadline(time.Now().Add(time.Second))
		var b []byte
		var err error
		switch api {
		case "machine":
			b, err = s.srv.conn.noise.ReadMessage(s.cb)
		case "grpcconn":
			buf := make([]byte, 70000)
			var n int
			n, err = s.srv.net.Read(buf)
			b = buf[:n]
		default:
			buf := make([]byte, 70000)
			var n int
			n, err = ncSrv.Read(buf)
			b = buf[:n]
		}
		if err != nil {
			if !released {
				// the reader has seen its timeout: now the relay lets
				// the rest through
				released = true
				timeouts++
				s.ca.out.inject(stream[at:])
				rc.Fault("stall-until-read-timeout")
				continue
			}
			errs++
			continue
		}
		got = append(got, b...)
		if !hasPrefix(all, got) {
			rc.Violate("c02.prefix", "stall-inside-record", "kk=%v via %s: after a read timeout %d bytes into the 2-byte record %04x (nothing was altered, the rest arrived later) the reader was given %d bytes that are not a prefix of what the peer wrote (first difference at byte %d: got %x)", kk, api, cut, v, len(got), firstDiff(got, all), b)
			return
		}
	}
	if !released {
		rc.HarnessError("the reader never timed out although %d bytes were withheld", len(stream)-at)
		return
	}
	if cut == 0 && len(got) != len(all) {
		// nothing of the record had been consumed when the timeout fired:
		// the retry must simply go on
		rc.Violate("c02.clean-stream-short", "timeout-at-record-boundary", "kk=%v via %s: a read timeout exactly between two records, nothing altered: only %d of %d bytes were returned afterwards", kk, api, len(got), len(all))
		return
	}
	rc.Progress()
}
