package mailbox

// C13 (mailbox part) - the keepalive of the mailbox connections (client 7 s,
// server 5 s ping, 3 s pong) detects a peer that stops responding altogether,
// on the first connection of a session and on every refreshed one.

import (
	"fmt"
	"time"

	"simrt"
)

func init() {
	simrt.Register(&simrt.Scenario{
		Prop: "C13", Name: "mb-dead-peer", Count: tiered(150, 120000),
		Run: c13Mailbox, MaxOps: 6 << 20, Horizon: 4 * time.Hour,
		Doc: "full stack over the stub relay; on the first, second or third connection of a session (the later ones come from RefreshClientConn / RefreshServerConn) the relay starts to swallow every message at a tape-chosen moment (idle or mid-transfer); both applications' Read/Write must fail within the keepalive bound",
	})
}

func c13Mailbox(rc *simrt.RunCtx) {
	pr := newPrng(rc.Seed())
	installEphemeralGen(pr)
	rl := newRelay(rc, relayFaults{latMin: time.Millisecond, latMax: time.Duration(2+rc.Pick(20, "relay.latmax")) * time.Millisecond})
	maxV := []byte{1, 2}[rc.Pick(2, "knob.maxversion")]
	st := newStack(rc, rl, pr, 50, maxV)
	which := rc.Pick(3, "wl.which-connection")
	big := rc.Pick(2, "wl.big") == 1
	st.planBytes = func(_ string, k int) int {
		if big && k == which {
			return 300000 + rc.Pick(500000, "wl.plan")
		}
		return 16 + rc.Pick(3000, "wl.plan")
	}
	// earlier connections are ended by the client as soon as they are through
	st.afterDone = func(in *instance) bool { return in.side == "client" && in.k < which }
	rc.Knob("case", fmt.Sprintf("maxV=%d connection=%d big=%v", maxV, which, big))
	st.start()
	var ci, si *instance
	for deadline := rc.Now() + 10*time.Minute; rc.Now() < deadline; {
		time.Sleep(200 * time.Millisecond)
		c, s := st.C.current(), st.S.current()
		if c != nil && s != nil && c.k >= which && st.S.snapshot(s).peerK == c.k && st.S.snapshot(s).peerTotal > 0 {
			ci, si = c, s
			break
		}
	}
	if ci == nil {
		rc.Probe("c13.mb-target-connection-not-reached")
		st.shutdown()
		return
	}
	time.Sleep(time.Duration(rc.Pick(9000, "wl.silence-at")) * time.Millisecond)
	tSilence := rc.Now()
	rl.mu.Lock()
	rl.f.until = 1 << 62
	rl.f.dropPm = 1000
	rl.f.recvErrPm, rl.f.sendErrPm, rl.f.openErrPm, rl.f.delayPm, rl.f.fullPm = 0, 0, 0, 0, 0
	rl.mu.Unlock()
	rc.Fault("relay-swallows-everything")
	rc.Sample("maxVersion=%d: relay silent from %v on connection #%d (%s), big=%v", maxV, tSilence, ci.k, ci.pattern, big)
	// bound: ping + pong of the slower side, resend/sync waits, FIN timeout
	bound := tSilence + 3*(7+3)*time.Second + 60*time.Second
	for rc.Now() < bound {
		a, b := st.C.snapshot(ci), st.S.snapshot(si)
		if (a.failed != nil || a.closedAt > 0) && (b.failed != nil || b.closedAt > 0) {
			break
		}
		time.Sleep(250 * time.Millisecond)
	}
	a, b := st.C.snapshot(ci), st.S.snapshot(si)
	for _, x := range []struct {
		name string
		in   instance
	}{{"client", a}, {"server", b}} {
		if x.in.failed == nil && x.in.closedAt == 0 && !rc.Failed() {
			cause := fmt.Sprintf("%s/connection-%d", x.name, min(ci.k, 2))
			if x.name == "client" && ci.pattern == XX && maxV >= 2 && c05StuckOnOldRendezvous(st, ci) {
				// recorded finding (C11 / C05 / C12): the server's keepalive
				// ended the pairing connection first, the server left the
				// passphrase-derived rendezvous and deleted its mailboxes;
				// the client, caught in a send at that moment, retries
				// "stream not found" forever inside the GBN callbacks, which
				// starves its own keepalive
				cause += "/at-rendezvous-switch"
			}
			rc.Violate("c13.mb-dead-peer-undetected", cause, "%v after the relay stopped delivering anything the %s application's Read/Write on connection #%d (%s) have still not failed: the mailbox connection's keepalive did not detect the dead peer", rc.Now()-tSilence, x.name, ci.k, ci.pattern)
		}
	}
	if !rc.Failed() {
		rc.Progress()
	}
	st.shutdown()
}
