package mailbox

// C16 - handshake and record framing do not depend on transport
// fragmentation: short reads of any granularity never make a valid handshake
// or record fail; when the writer accepts only part of a record and times out,
// repeated flushing emits exactly the remaining bytes once, reports exactly
// the number of plaintext bytes accepted, and no new record can be started
// until the pending one is out.

import (
	"bytes"
	"context"
	"errors"
	"fmt"
	"time"

	"github.com/btcsuite/btcd/btcec/v2"
	"github.com/lightningnetwork/lnd/keychain"
	"simrt"
)

type keychainKey = keychain.SingleKeyECDH

var c16Payloads = []int{0, 1, 15, 16, 17, 100}

func init() {
	simrt.Register(&simrt.Scenario{
		Prop: "C16", Name: "fragmented-handshake", Enumerated: true, Count: fixed(41 * len(c16HsCfgs)),
		Run: c16FragHandshake, MaxOps: 4 << 20, Horizon: time.Hour,
		Doc: "XX and KK handshakes at every version over a stream whose every Read returns at most g bytes, for every fixed g in 1..40 and a random granularity; outcome and derived keys must equal those of the unfragmented run with the same keys",
	})
	simrt.Register(&simrt.Scenario{
		Prop: "C16", Name: "record-behind-last-act", Enumerated: true, Count: fixed(len(c16HsCfgs) * len(c16Grains)),
		Run: c16RecordBehindAct, MaxOps: 4 << 20, Horizon: time.Hour,
		Doc: "the party that writes the last handshake act writes its first record immediately behind it (before the peer has read the act), and the stream hands out at most g bytes per Read for g in {1,2,7,16,19,33,50,64,100,512,4096,unlimited} - a Read may therefore return bytes from both sides of the act/record boundary; handshake and record must both arrive",
	})
	simrt.Register(&simrt.Scenario{
		Prop: "C16", Name: "chunked-write-timeouts", Count: tiered(300, 120000),
		Run: c16ChunkedWrite, MaxOps: 4 << 20, Horizon: time.Hour,
		Doc: "NoiseConn.Write of 2-4 records' worth of data over a connection whose writes time out at 1-3 tape-chosen stream offsets; the caller resumes as documented (Flush until done, then Write the rest from the reported count); the reported counts must add up and the peer must read exactly the original bytes",
	})
	simrt.Register(&simrt.Scenario{
		Prop: "C16", Name: "fragmented-records", Count: tiered(3000, 320000),
		Run: c16FragRecords, MaxOps: 4 << 20, Horizon: time.Hour,
		Doc: "record exchange through NoiseGrpcConn / NoiseConn / Machine over readers returning 1..k bytes per Read (fixed and random granularity), payloads 0..65535",
	})
	simrt.Register(&simrt.Scenario{
		Prop: "C16", Name: "partial-writes", Enumerated: true, Count: fixed(len(c16Payloads) * 2),
		Run: c16PartialWrites, MaxOps: 1 << 40, Serial: true, Horizon: time.Hour,
		Doc: "for payload sizes {0,1,15,16,17,100}: all two-way and all three-way partitions of the record's wire bytes into partial writes, each followed by a timeout error (second half of the indices: 200 random finer partitions per size)",
	})
}

type c16HsCfg struct {
	kk         bool
	minV, maxV byte
}

var c16Grains = []int{1, 2, 7, 16, 19, 33, 50, 64, 100, 512, 4096, 0}

var c16HsCfgs = []c16HsCfg{{false, 0, 0}, {false, 1, 1}, {false, 2, 2}, {false, 0, 2}, {true, 2, 2}}

func c16Handshake(rc *simrt.RunCtx, cfg c16HsCfg, seed uint64, frag func() int) (*party, *party) {
	pr := newPrng(seed)
	installEphemeralGen(pr)
	ck, sk := pr.ecdh(), pr.ecdh()
	pass := pr.bytes(14)
	sp := hsSpec{cliPass: pass, srvPass: pass, cliKey: ck, srvKey: sk, auth: marker(seed, 300), cMin: cfg.minV, cMax: cfg.maxV, sMin: cfg.minV, sMax: cfg.maxV}
	if cfg.kk {
		sp.cliRemote, sp.srvRemote = sk.PubKey(), ck.PubKey()
	}
	ca, cb := newDuplex()
	ca.in.frag, cb.in.frag = frag, frag
	cli, srv := runHandshake(rc, sp, ca, cb)
	waitParties(cli, srv)
	return cli, srv
}

func c16FragHandshake(rc *simrt.RunCtx) {
	cfg := c16HsCfgs[(rc.Idx()/41)%len(c16HsCfgs)]
	g := rc.Idx() % 41 // 0: random granularity, 1..40 fixed
	seed := uint64(rc.Idx()/41) + 4242
	ref, refS := c16Handshake(rc, cfg, seed, nil)
	if ref.err != nil || refS.err != nil {
		rc.HarnessError("reference (unfragmented) handshake failed: %v / %v", ref.err, refS.err)
		return
	}
	frag := func() int { return g }
	what := fmt.Sprintf("every Read returns at most %d bytes", g)
	if g == 0 {
		frag = func() int { return 1 + simrt.Choose(48, "frag.n") }
		what = "every Read returns 1..48 bytes (random)"
	}
	cli, srv := c16Handshake(rc, cfg, seed, frag)
	rc.Sample("kk=%v versions [%d,%d], %s: initiator %s, responder %s", cfg.kk, cfg.minV, cfg.maxV, what, describeErr(cli.err), describeErr(srv.err))
	cause := "short-read"
	if cli.err != nil || srv.err != nil {
		rc.Violate("c16.fragmented-handshake", cause, "kk=%v versions [%d,%d]: the handshake succeeds over an unfragmented stream but fails when %s: initiator %v, responder %v", cfg.kk, cfg.minV, cfg.maxV, what, cli.err, srv.err)
		return
	}
	a, b := cli.conn.noise, ref.conn.noise
	if a.sendCipher.secretKey != b.sendCipher.secretKey || a.recvCipher.secretKey != b.recvCipher.secretKey || a.version != b.version ||
		!eqBytes(cli.data.AuthData(), ref.data.AuthData()) {
		rc.Violate("c16.fragmented-handshake", cause+"/different-result", "kk=%v: the fragmented handshake completed with other keys / version / auth data than the unfragmented one", cfg.kk)
		return
	}
	rc.Progress()
	rc.Fault(fmt.Sprintf("frag-%d-cfg-%d", g, (rc.Idx()/41)%len(c16HsCfgs)))
}

func c16FragRecords(rc *simrt.RunCtx) {
	kk := rc.Pick(2, "knob.kk") == 1
	apis := []string{"grpcconn", "noiseconn", "machine"}
	api := apis[rc.Pick(len(apis), "knob.api")]
	s := establish(rc, kk, 50)
	if s == nil {
		return
	}
	g := 1 + rc.Pick(40, "frag.fixed")
	random := rc.Pick(2, "frag.random") == 1
	frag := func() int {
		if random {
			return 1 + simrt.Choose(3*g, "frag.n")
		}
		return g
	}
	s.cb.in.frag = frag
	s.ca.in.frag = frag
	rc.Knob("case", fmt.Sprintf("kk=%v api=%s g=%d random=%v", kk, api, g, random))
	n := 1 + rc.Pick(20, "wl.recs")
	var sent [][]byte
	for i := 0; i < n; i++ {
		size := []int{0, 1, 17, 100, 1000, 5000}[rc.Pick(6, "wl.size")]
		if rc.Pick(25, "wl.huge") == 0 {
			size = 65535
		}
		sent = append(sent, marker(uint64(i)+9, size))
	}
	rc.Sample("kk=%v api=%s reads return <=%d bytes (random=%v), %d records", kk, api, g, random, n)
	var ncCli, ncSrv *NoiseConn
	if api == "noiseconn" {
		ncCli = &NoiseConn{conn: s.ca, noise: s.cli.conn.noise}
		ncSrv = &NoiseConn{conn: s.cb, noise: s.srv.conn.noise}
	}
	werr := make(chan error, 1)
	go func() {
		for _, p := range sent {
			var err error
			switch api {
			case "grpcconn":
				_, err = s.cli.net.Write(p)
			case "noiseconn":
				_, err = ncCli.Write(p)
			default:
				if err = s.cli.conn.noise.WriteMessage(p); err == nil {
					_, err = s.cli.conn.noise.Flush(s.ca)
				}
			}
			if err != nil {
				werr <- err
				return
			}
		}
		werr <- nil
	}()
	var want []byte
	for _, p := range sent {
		want = append(want, p...)
	}
	var got []byte
	s.cb.SetReadDeadline(time.Now().Add(time.Minute))
	if api == "machine" {
		for i, p := range sent {
			b, err := s.srv.conn.noise.ReadMessage(s.cb)
			if err != nil {
				rc.Violate("c16.fragmented-record", "short-read", "api=%s kk=%v: ReadMessage of valid record %d over a reader that returns at most %d bytes per Read failed: %v", api, kk, i, g, err)
				return
			}
			if !eqBytes(b, p) {
				rc.Violate("c16.fragmented-record", "short-read/record-differs", "api=%s kk=%v: ReadMessage over a fragmenting reader returned %d bytes that differ from the %d-byte record written", api, kk, len(b), len(p))
				return
			}
		}
	} else {
		for len(got) < len(want) {
			buf := make([]byte, 70000)
			var k int
			var err error
			if api == "grpcconn" {
				k, err = s.srv.net.Read(buf)
			} else {
				k, err = ncSrv.Read(buf)
			}
			if err != nil {
				rc.Violate("c16.fragmented-record", "short-read", "api=%s kk=%v: reading valid records over a reader that returns at most %d bytes per Read failed after %d of %d bytes: %v", api, kk, g, len(got), len(want), err)
				return
			}
			got = append(got, buf[:k]...)
		}
		if !eqBytes(got, want) {
			rc.Violate("c16.fragmented-record", "short-read/bytes-differ", "api=%s kk=%v: bytes read differ from bytes written (first difference at %d)", api, kk, firstDiff(got, want))
			return
		}
	}
	if err := <-werr; err != nil {
		rc.Violate("c16.fragmented-record", "write-error", "writer failed: %v", err)
		return
	}
	rc.Progress()
	rc.Fault("fragmented-reads")
}

// budgetWriter accepts a given number of bytes per flush attempt and then
// fails with a timeout error.
type budgetWriter struct {
	out    bytes.Buffer
	budget int // bytes still accepted in the current attempt; <0: unlimited
}

func (w *budgetWriter) Write(p []byte) (int, error) {
	if w.budget < 0 || w.budget >= len(p) {
		if w.budget >= 0 {
			w.budget -= len(p)
		}
		w.out.Write(p)
		return len(p), nil
	}
	n := w.budget
	w.out.Write(p[:n])
	w.budget = 0
	return n, timeoutErr{}
}

func c16PartialWrites(rc *simrt.RunCtx) {
	size := c16Payloads[rc.Idx()%len(c16Payloads)]
	randomMode := rc.Idx() >= len(c16Payloads)
	s := establish(rc, false, 20)
	if s == nil {
		return
	}
	w, r := s.cli.conn.noise, s.srv.conn.noise
	L := encHeaderSize + size + macSize
	cases := 0
	try := func(cuts []int) bool {
		// cuts: strictly increasing byte positions in (0, L) at which a
		// flush attempt times out
		cases++
		payload := marker(uint64(cases)+uint64(size)*7919, size)
		if err := w.WriteMessage(payload); err != nil {
			rc.Violate("c16.partial-write", "writemessage-failed", "WriteMessage failed with nothing pending: %v", err)
			return false
		}
		bw := &budgetWriter{}
		total, prev := 0, 0
		for k := 0; k <= len(cuts); k++ {
			if k < len(cuts) {
				bw.budget = cuts[k] - prev
				prev = cuts[k]
			} else {
				bw.budget = -1
			}
			n, err := w.Flush(bw)
			total += n
			if k < len(cuts) {
				var te interface{ Timeout() bool }
				if err == nil || !errors.As(err, &te) {
					rc.Violate("c16.partial-write", "flush-swallowed-timeout", "payload %dB cuts %v: Flush over a writer that timed out after %d bytes returned err=%v", size, cuts, cuts[k], err)
					return false
				}
				// the connection is full duplex: while the record is pending,
				// the same machine receives one from its peer (every other
				// case, after the first timeout)
				if k == 0 && cases%2 == 0 {
					back := marker(uint64(cases)*31+5, 1+cases%40)
					var rev bytes.Buffer
					if err := r.WriteMessage(back); err != nil {
						rc.Violate("c16.partial-write", "reverse-write-failed", "the peer's WriteMessage failed: %v", err)
						return false
					}
					if _, err := r.Flush(&rev); err != nil {
						rc.Violate("c16.partial-write", "reverse-write-failed", "the peer's Flush failed: %v", err)
						return false
					}
					gotBack, err := w.ReadMessage(&rev)
					if err != nil || !eqBytes(gotBack, back) {
						rc.Violate("c16.partial-write", "reverse-read-while-pending", "payload %dB cuts %v: with %d of %d wire bytes of its own record unflushed the machine cannot read a record from its peer: err=%v, %d bytes", size, cuts, L-cuts[k], L, err, len(gotBack))
						return false
					}
				}
				// no new record may be started while one is pending
				if err2 := w.WriteMessage([]byte("next")); !errors.Is(err2, ErrMessageNotFlushed) {
					rc.Violate("c16.partial-write", "new-record-while-pending", "payload %dB cuts %v: WriteMessage with %d of %d wire bytes still unflushed returned %v instead of ErrMessageNotFlushed", size, cuts, L-cuts[k], L, err2)
					return false
				}
			} else if err != nil {
				rc.Violate("c16.partial-write", "final-flush-failed", "payload %dB cuts %v: final Flush failed: %v", size, cuts, err)
				return false
			}
		}
		if n, err := w.Flush(bw); n != 0 || err != nil {
			rc.Violate("c16.partial-write", "flush-after-complete", "payload %dB cuts %v: Flush with nothing pending returned (%d, %v)", size, cuts, n, err)
			return false
		}
		if bw.out.Len() != L {
			rc.Violate("c16.partial-write", "wire-length", "payload %dB cuts %v: successive flushes emitted %d bytes, the record has %d", size, cuts, bw.out.Len(), L)
			return false
		}
		if total != size {
			rc.Violate("c16.partial-write", "plaintext-count", "payload %dB cuts %v: the counts returned by the flushes sum to %d", size, cuts, total)
			return false
		}
		got, err := r.ReadMessage(&bw.out)
		if err != nil || !eqBytes(got, payload) {
			rc.Violate("c16.partial-write", "peer-cannot-read", "payload %dB cuts %v: the peer's ReadMessage on the emitted bytes: err=%v, %d bytes", size, cuts, err, len(got))
			return false
		}
		return true
	}
	if !randomMode {
		if !try(nil) {
			return
		}
		for a := 1; a < L; a++ {
			if !try([]int{a}) {
				return
			}
		}
		for a := 1; a < L; a++ {
			for b := a + 1; b < L; b++ {
				if !try([]int{a, b}) {
					return
				}
			}
		}
		rc.Sample("payload %dB (record of %d wire bytes): all %d two-way and three-way partitions into partial writes", size, L, cases)
	} else {
		for k := 0; k < 200; k++ {
			var cuts []int
			pos := 0
			for {
				pos += 1 + rc.Pick(L/2+1, "pw.step")
				if pos >= L {
					break
				}
				cuts = append(cuts, pos)
			}
			if !try(cuts) {
				return
			}
		}
		rc.Sample("payload %dB: 200 random finer partitions", size)
	}
	rc.ProbeN("c16.partitions", cases)
	rc.Progress()
	rc.Fault(fmt.Sprintf("partitions-%d", rc.Idx()))
}

func c16RecordBehindAct(rc *simrt.RunCtx) {
	cfg := c16HsCfgs[rc.Idx()%len(c16HsCfgs)]
	g := c16Grains[(rc.Idx()/len(c16HsCfgs))%len(c16Grains)]
	pr := newPrng(uint64(rc.Idx()) + 777)
	installEphemeralGen(pr)
	ck, sk := pr.ecdh(), pr.ecdh()
	pass := pr.bytes(14)
	sp := hsSpec{cliPass: pass, srvPass: pass, cliKey: ck, srvKey: sk, auth: marker(3, 40), cMin: cfg.minV, cMax: cfg.maxV, sMin: cfg.minV, sMax: cfg.maxV}
	if cfg.kk {
		sp.cliRemote, sp.srvRemote = sk.PubKey(), ck.PubKey()
	}
	ca, cb := newDuplex()
	if g > 0 {
		frag := func() int { return g }
		ca.in.frag, cb.in.frag = frag, frag
	}
	mkp := func(p hsSpec, key keychainKey, remote *btcec.PublicKey, auth []byte) (*ConnData, *NoiseGrpcConn) {
		d := NewConnData(key, remote, pass, auth, nil, nil)
		return d, NewNoiseGrpcConn(d, WithMinHandshakeVersion(cfg.minV), WithMaxHandshakeVersion(cfg.maxV))
	}
	_, ccreds := mkp(sp, ck, sp.cliRemote, nil)
	_, screds := mkp(sp, sk, sp.srvRemote, sp.auth)
	first := marker(11, 37)  // written by the initiator right behind its last act (XX: act 3)
	second := marker(12, 41) // written by the responder right behind its last act (KK: act 2)
	type res struct {
		err error
		got []byte
	}
	cd, sd := make(chan res, 1), make(chan res, 1)
	ca.SetReadDeadline(time.Now().Add(time.Minute))
	cb.SetReadDeadline(time.Now().Add(time.Minute))
	go func() {
		c, _, err := ccreds.ClientHandshake(context.Background(), "", ca)
		if err != nil {
			cd <- res{err, nil}
			return
		}
		if _, err := c.Write(first); err != nil {
			cd <- res{err, nil}
			return
		}
		ca.SetReadDeadline(time.Now().Add(10 * time.Second))
		buf := make([]byte, 4096)
		n, err := c.Read(buf)
		cd <- res{err, buf[:n]}
	}()
	go func() {
		c, _, err := screds.ServerHandshake(cb)
		if err != nil {
			sd <- res{err, nil}
			return
		}
		if _, err := c.Write(second); err != nil {
			sd <- res{err, nil}
			return
		}
		cb.SetReadDeadline(time.Now().Add(10 * time.Second))
		buf := make([]byte, 4096)
		n, err := c.Read(buf)
		sd <- res{err, buf[:n]}
	}()
	cr, sr := <-cd, <-sd
	what := fmt.Sprintf("kk=%v versions [%d,%d], reads return at most %d bytes (0 = unlimited)", cfg.kk, cfg.minV, cfg.maxV, g)
	rc.Sample("%s: initiator %s, responder %s", what, describeErr(cr.err), describeErr(sr.err))
	switch {
	case sr.err != nil || !eqBytes(sr.got, first):
		rc.Violate("c16.record-behind-act", "responder-lost-first-record", "%s: the initiator wrote a record right behind its last act; the responder's handshake + first Read: err=%v, got %d bytes (want %d)", what, sr.err, len(sr.got), len(first))
	case cr.err != nil || !eqBytes(cr.got, second):
		rc.Violate("c16.record-behind-act", "initiator-lost-first-record", "%s: the responder wrote a record right behind its last act; the initiator's handshake + first Read: err=%v, got %d bytes (want %d)", what, cr.err, len(cr.got), len(second))
	}
	rc.Progress()
	rc.Fault(fmt.Sprintf("behind-act-%d", rc.Idx()))
}

// cutConn is a net.Conn whose Write accepts bytes only up to the next cut
// offset of the outgoing stream and then reports a timeout.
type cutConn struct {
	*simConn
	cuts []int
	sent int
}

func (c *cutConn) Write(p []byte) (int, error) {
	if len(c.cuts) > 0 && c.sent+len(p) > c.cuts[0] {
		n := c.cuts[0] - c.sent
		if n < 0 {
			n = 0
		}
		c.cuts = c.cuts[1:]
		k, _ := c.simConn.Write(p[:n])
		c.sent += k
		return k, timeoutErr{}
	}
	k, err := c.simConn.Write(p)
	c.sent += k
	return k, err
}

func c16ChunkedWrite(rc *simrt.RunCtx) {
	s := establish(rc, rc.Pick(2, "knob.kk") == 1, 16)
	if s == nil {
		return
	}
	total := 65535*(1+rc.Pick(3, "wl.chunks")) + 1 + rc.Pick(65535, "wl.tail")
	data := marker(rc.Seed()^5, total)
	wire := total + (total/65535+1)*(encHeaderSize+macSize)
	var cuts []int
	pos := 0
	for k := 0; k < 1+rc.Pick(3, "wl.ncuts"); k++ {
		pos += 1 + rc.Pick(wire/2, "wl.cut")
		if pos >= wire {
			break
		}
		cuts = append(cuts, pos)
	}
	cc := &cutConn{simConn: s.ca, cuts: cuts}
	w := &NoiseConn{conn: cc, noise: s.cli.conn.noise}
	r := &NoiseConn{conn: s.cb, noise: s.srv.conn.noise}
	rc.Knob("case", fmt.Sprintf("total=%d cuts=%v", total, cuts))
	rc.Sample("Write of %d bytes (%d records), write timeouts at stream offsets %v", total, total/65535+1, cuts)
	rdone := make(chan []byte, 1)
	go func() {
		var got []byte
		s.cb.SetReadDeadline(time.Now().Add(30 * time.Second))
		buf := make([]byte, 70000)
		for len(got) < total {
			n, err := r.Read(buf)
			got = append(got, buf[:n]...)
			if err != nil {
				break
			}
		}
		// anything beyond?
		s.cb.SetReadDeadline(time.Now().Add(2 * time.Second))
		if n, _ := r.Read(buf); n > 0 {
			got = append(got, buf[:n]...)
		}
		rdone <- got
	}()
	// the writer, resuming after timeouts the documented way
	accepted := 0
	for attempts := 0; accepted < total && attempts < 20; attempts++ {
		n, err := w.Write(data[accepted:])
		accepted += n
		if err == nil {
			continue
		}
		var te interface{ Timeout() bool }
		if !errors.As(err, &te) {
			rc.Violate("c16.chunked-write", "write-error", "Write failed with a non-timeout error: %v", err)
			return
		}
		rc.Fault("write-timeout")
		// finish the pending record
		for k := 0; k < 20; k++ {
			m, ferr := w.Flush()
			accepted += m
			if ferr == nil {
				break
			}
		}
	}
	got := <-rdone
	if accepted != total {
		rc.Violate("c16.chunked-write", "count-mismatch", "after resuming the counts reported by Write/Flush add up to %d, the buffer had %d bytes", accepted, total)
		return
	}
	if !eqBytes(got, data) {
		rc.Violate("c16.chunked-write", "peer-bytes-differ", "Write of %d bytes with timeouts at %v, resumed from the reported counts: the peer read %d bytes, first difference at %d", total, cuts, len(got), firstDiff(got, data))
		return
	}
	rc.Progress()
}
