package mailbox

// Helpers to obtain a pair of Machines / secured connections after a real,
// untampered handshake.

import (
	"fmt"

	"simrt"
)

type session struct {
	cli, srv *party
	ca, cb   *simConn
	sp       hsSpec
	pr       *prng
	auth     []byte
}

// establish runs an untampered XX or KK handshake (default versions) over a
// fresh duplex. It returns nil after recording a harness error if that fails.
func establish(rc *simrt.RunCtx, kk bool, authSize int) *session {
	pr := newPrng(rc.Seed() ^ 0x5e5510)
	installEphemeralGen(pr)
	auth := marker(rc.Seed()^0xa17, authSize)
	ck, sk := pr.ecdh(), pr.ecdh()
	pass := pr.bytes(14)
	sp := hsSpec{cliPass: pass, srvPass: pass, cliKey: ck, srvKey: sk, auth: auth, cMin: 0, cMax: 2, sMin: 0, sMax: 2}
	if kk {
		sp.cliRemote, sp.srvRemote = sk.PubKey(), ck.PubKey()
	}
	ca, cb := newDuplex()
	cli, srv := runHandshake(rc, sp, ca, cb)
	waitParties(cli, srv)
	if cli.err != nil || srv.err != nil {
		rc.HarnessError("untampered handshake failed (kk=%v): %v / %v", kk, cli.err, srv.err)
		return nil
	}
	return &session{cli: cli, srv: srv, ca: ca, cb: cb, sp: sp, pr: pr, auth: auth}
}

// recordBytes returns the wire bytes of the j-th record written on a half
// (header segment 2j and body segment 2j+1), given the index of the first
// data segment (the handshake acts come first).
func recordBytes(h *half, firstSeg, j int) []byte {
	h.mu.Lock()
	defer h.mu.Unlock()
	a, b := firstSeg+2*j, firstSeg+2*j+1
	if b >= len(h.segs) {
		return nil
	}
	return append(append([]byte(nil), h.segs[a]...), h.segs[b]...)
}

func (h *half) segCount() int {
	h.mu.Lock()
	defer h.mu.Unlock()
	return len(h.segs)
}

// swallow makes the half record write segments without delivering them.
func (h *half) swallow() {
	h.mu.Lock()
	h.adv = func(int, []byte) [][]byte { return nil }
	h.mu.Unlock()
}

func sizeName(n int) string { return fmt.Sprintf("%dB", n) }
