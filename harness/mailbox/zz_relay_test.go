package mailbox

// Stub of aperture's hashmail relay, injected as the HashMailClient of the
// real Server / Client / ServerConn / ClientConn code: named mailboxes with
// bounded FIFO buffers, one reader and one writer per box, "stream not found",
// "stream occupied", AlreadyExists on re-creation - plus seeded faults:
// per-message drop and delay, stream errors on Recv/Send at chosen message
// indices, failing NewCipherBox/RecvStream/SendStream calls, a full mailbox.

import (
	"context"
	"errors"
	"fmt"
	"sort"
	"sync"
	"time"

	"github.com/lightninglabs/lightning-node-connect/hashmailrpc"
	"google.golang.org/grpc"
	"google.golang.org/grpc/codes"
	"google.golang.org/grpc/status"
	"simrt"
)

type relayFaults struct {
	until     time.Duration // faults stop at this virtual instant (0: no faults at all)
	dropPm    int
	delayPm   int
	delay     time.Duration
	recvErrPm int // a Recv call fails and kills its stream
	sendErrPm int
	openErrPm int // NewCipherBox / RecvStream / SendStream fail
	fullPm    int // a Send blocks for `fullFor` (mailbox full)
	fullFor   time.Duration
	latMin    time.Duration
	latMax    time.Duration
	injectPm  int           // after a Send, the relay also delivers a forged message (C07)
	asyncSend time.Duration // > 0: Send only queues the message locally and returns; it is on its way after this long, unless the stream's context is cancelled first (gRPC client streams)
	capMsgs   int           // mailbox capacity in messages: a Send blocks while the box holds that many (0 = unbounded)
	delErrPm  int           // DelCipherBox fails (at any time, not only before `until`); the box may or may not be gone
	garbageAny bool // garbagePm applies to every stream (re)opening before `until`, not only to the first one per stream id
	garbagePm int           // the first message delivered by the first receive stream ever opened on a stream id is garbage: the GBN handshake on it fails, Dial/Accept report an error, the application retries
}

type relayMsg struct {
	b  []byte
	at time.Duration
	// from / commitAt: with an asynchronous send side (see asyncSend) the
	// message is still in the sender's gRPC layer until commitAt; if the
	// stream's context is cancelled before, the stream is reset and the
	// message never reaches the relay
	from     *sendStream
	commitAt time.Duration
}

type box struct {
	id     string
	q      []relayMsg
	reader *recvStream
	writer *sendStream
	wake   chan struct{}
	wwake  chan struct{} // signalled when a message leaves the box
}

type seenMsg struct {
	sid string
	msg []byte
}

type relay struct {
	rc     *simrt.RunCtx
	mu     sync.Mutex
	boxes  map[string]*box
	f      relayFaults
	seen   []seenMsg
	sids   map[string]int // stream ids ever presented, with a count
	events []string
	nMsgs  int
	// blocked: senders currently waiting for room in a full mailbox
	blocked int
}

func newRelay(rc *simrt.RunCtx, f relayFaults) *relay {
	if f.latMax < f.latMin {
		f.latMax = f.latMin
	}
	return &relay{rc: rc, boxes: map[string]*box{}, f: f, sids: map[string]int{}}
}

func (r *relay) faulty() bool { return r.f.until != 0 && r.rc.Now() < r.f.until }

func (r *relay) note(f string, a ...any) {
	s := fmt.Sprintf(f, a...)
	simrt.Note("relay: %s", s)
}

func sidKey(b []byte) string { return fmt.Sprintf("%x", b) }

func (r *relay) NewCipherBox(ctx context.Context, in *hashmailrpc.CipherBoxAuth, _ ...grpc.CallOption) (*hashmailrpc.CipherInitResp, error) {
	if ctx.Err() != nil {
		return nil, status.Error(codes.Canceled, ctx.Err().Error())
	}
	id := sidKey(in.Desc.StreamId)
	r.mu.Lock()
	defer r.mu.Unlock()
	r.sids[id]++
	if r.faulty() && simrt.Pm(r.f.openErrPm, "relay.newbox-err") {
		r.rc.Fault("relay-newbox-error")
		return nil, status.Error(codes.Unavailable, "simulated relay failure")
	}
	if _, ok := r.boxes[id]; ok {
		return nil, status.Error(codes.AlreadyExists, "stream already active")
	}
	r.boxes[id] = &box{id: id, wake: make(chan struct{}, 1), wwake: make(chan struct{}, 1)}
	r.note("new box %s", id[:8]+id[len(id)-2:])
	return &hashmailrpc.CipherInitResp{Resp: &hashmailrpc.CipherInitResp_Success{Success: &hashmailrpc.CipherSuccess{Desc: in.Desc}}}, nil
}

func (r *relay) DelCipherBox(ctx context.Context, in *hashmailrpc.CipherBoxAuth, _ ...grpc.CallOption) (*hashmailrpc.DelCipherBoxResp, error) {
	id := sidKey(in.Desc.StreamId)
	r.mu.Lock()
	if r.f.delErrPm > 0 && simrt.Pm(r.f.delErrPm, "relay.del-err") {
		r.rc.Fault("relay-delbox-error")
		if simrt.Choose(2, "relay.del-err-kept") == 0 {
			r.mu.Unlock()
			r.note("del box %s fails, box kept", id[:8])
			return nil, status.Error(codes.Unavailable, "simulated relay failure")
		}
		b := r.boxes[id]
		delete(r.boxes, id)
		r.mu.Unlock()
		if b != nil {
			select {
			case b.wake <- struct{}{}:
			default:
			}
			select {
			case b.wwake <- struct{}{}:
			default:
			}
		}
		r.note("del box %s fails, box gone", id[:8])
		return nil, status.Error(codes.Unavailable, "simulated relay failure")
	}
	b := r.boxes[id]
	delete(r.boxes, id)
	r.mu.Unlock()
	if b != nil {
		r.note("del box %s", id[:8])
		select {
		case b.wake <- struct{}{}:
		default:
		}
		select {
		case b.wwake <- struct{}{}:
		default:
		}
	}
	return &hashmailrpc.DelCipherBoxResp{}, nil
}

// ---- send side -------------------------------------------------------------

type sendStream struct {
	grpc.ClientStream
	r      *relay
	ctx    context.Context
	mu     sync.Mutex
	dead   error
	box    *box
	closed bool
}

func (r *relay) SendStream(ctx context.Context, _ ...grpc.CallOption) (hashmailrpc.HashMail_SendStreamClient, error) {
	if ctx.Err() != nil {
		return nil, status.Error(codes.Canceled, ctx.Err().Error())
	}
	r.mu.Lock()
	defer r.mu.Unlock()
	if r.faulty() && simrt.Pm(r.f.openErrPm, "relay.sendstream-err") {
		r.rc.Fault("relay-sendstream-error")
		return nil, status.Error(codes.Unavailable, "simulated relay failure")
	}
	s := &sendStream{r: r, ctx: ctx}
	if r.f.asyncSend > 0 {
		go s.watchCancel()
	}
	return s, nil
}

// watchCancel resets the stream when its context ends: whatever the sender's
// side had only queued is dropped.
func (s *sendStream) watchCancel() {
	<-s.ctx.Done()
	r := s.r
	r.mu.Lock()
	defer r.mu.Unlock()
	now := r.rc.Now()
	for _, id := range r.boxIDs() {
		b := r.boxes[id]
		kept := b.q[:0]
		for _, m := range b.q {
			if m.from == s && m.commitAt > now {
				r.rc.Fault("relay-queued-send-dropped-by-stream-reset")
				r.note("stream reset drops a queued %d-byte message for %s", len(m.b), id[:8])
				continue
			}
			kept = append(kept, m)
		}
		b.q = kept
	}
}

// flush: everything this stream has queued is on its way (a half-close that
// was answered by the relay).
func (s *sendStream) flush() {
	now := s.r.rc.Now()
	for _, id := range s.r.boxIDs() {
		b := s.r.boxes[id]
		for i := range b.q {
			if b.q[i].from == s && b.q[i].commitAt > now {
				b.q[i].commitAt = now
			}
		}
	}
}

func (s *sendStream) Context() context.Context { return s.ctx }

func (s *sendStream) release() {
	if s.box != nil && s.box.writer == s {
		s.box.writer = nil
	}
}

func (s *sendStream) CloseSend() error {
	s.r.mu.Lock()
	s.closed = true
	s.release()
	s.r.mu.Unlock()
	return nil
}

func (s *sendStream) CloseAndRecv() (*hashmailrpc.CipherBoxDesc, error) {
	if s.ctx.Err() != nil {
		return nil, status.Error(codes.Canceled, s.ctx.Err().Error())
	}
	s.r.mu.Lock()
	s.flush()
	s.r.mu.Unlock()
	s.CloseSend()
	return &hashmailrpc.CipherBoxDesc{}, nil
}

func (s *sendStream) Send(m *hashmailrpc.CipherBox) error {
	r := s.r
	if s.ctx.Err() != nil {
		return status.Error(codes.Canceled, s.ctx.Err().Error())
	}
	r.mu.Lock()
	if s.dead != nil || s.closed {
		err := s.dead
		r.mu.Unlock()
		if err == nil {
			err = errors.New("send on closed stream")
		}
		return err
	}
	id := sidKey(m.Desc.StreamId)
	r.sids[id]++
	b, ok := r.boxes[id]
	if !ok {
		s.dead = status.Error(codes.NotFound, "stream not found")
		r.mu.Unlock()
		r.note("send: stream %s not found", id[:8]+id[len(id)-2:])
		return s.dead
	}
	if b.writer != nil && b.writer != s && b.writer.ctx.Err() == nil {
		s.dead = status.Error(codes.Unavailable, "write stream occupied")
		r.mu.Unlock()
		r.note("send: stream %s write side occupied", id[:8]+id[len(id)-2:])
		return s.dead
	}
	b.writer, s.box = s, b
	// a bounded mailbox: the call blocks while the box is full (the real
	// relay's mailbox is a pipe; back-pressure reaches the sender)
	if r.f.capMsgs > 0 && len(b.q) >= r.f.capMsgs {
		r.rc.Fault("relay-backpressure")
		r.blocked++
		for len(b.q) >= r.f.capMsgs {
			ww := b.wwake
			r.mu.Unlock()
			select {
			case <-ww:
			case <-s.ctx.Done():
				r.mu.Lock()
				r.blocked--
				r.mu.Unlock()
				return status.Error(codes.Canceled, s.ctx.Err().Error())
			}
			r.mu.Lock()
			if cur, ok := r.boxes[id]; !ok || cur != b || s.dead != nil || s.closed {
				r.blocked--
				err := s.dead
				if err == nil {
					err = status.Error(codes.NotFound, "stream not found")
					s.dead = err
				}
				r.mu.Unlock()
				return err
			}
		}
		r.blocked--
	}
	faulty := r.faulty()
	if faulty && simrt.Pm(r.f.sendErrPm, "relay.send-err") {
		r.rc.Fault("relay-send-stream-error")
		s.dead = status.Error(codes.Unavailable, "simulated send stream failure")
		s.release()
		r.mu.Unlock()
		r.note("send stream error on %s", id[:8])
		return s.dead
	}
	msg := append([]byte(nil), m.Msg...)
	r.seen = append(r.seen, seenMsg{id, msg})
	r.nMsgs++
	var block time.Duration
	if faulty && simrt.Pm(r.f.fullPm, "relay.full") {
		block = r.f.fullFor
		r.rc.Fault("relay-mailbox-full")
	}
	if faulty && simrt.Pm(r.f.dropPm, "relay.drop") {
		r.rc.Fault("relay-drop")
		r.mu.Unlock()
		r.note("drop on %s", id[:8])
		return nil
	}
	lat := r.f.latMin
	if r.f.latMax > r.f.latMin {
		lat += time.Duration(simrt.Choose(int((r.f.latMax-r.f.latMin)/time.Millisecond)+1, "relay.lat")) * time.Millisecond
	}
	if faulty && simrt.Pm(r.f.delayPm, "relay.delay") {
		lat += r.f.delay
		r.rc.Fault("relay-delay")
	}
	at := r.rc.Now() + lat
	if n := len(b.q); n > 0 && b.q[n-1].at > at {
		at = b.q[n-1].at // the relay keeps order
	}
	rm := relayMsg{b: msg, at: at}
	if r.f.asyncSend > 0 {
		rm.from, rm.commitAt = s, r.rc.Now()+r.f.asyncSend
		if rm.at < rm.commitAt {
			rm.at = rm.commitAt
		}
	}
	b.q = append(b.q, rm)
	if faulty && simrt.Pm(r.f.injectPm, "relay.inject") {
		forged := r.forge(msg)
		b.q = append(b.q, relayMsg{b: forged, at: at})
		r.rc.Fault("relay-inject")
		simrt.NoteSig("relay injects %s into %s", simrt.Hex(forged, 8), id[:8])
	}
	wake := b.wake
	r.mu.Unlock()
	select {
	case wake <- struct{}{}:
	default:
	}
	if block > 0 {
		select {
		case <-time.After(block):
		case <-s.ctx.Done():
			return status.Error(codes.Canceled, s.ctx.Err().Error())
		}
	}
	return nil
}

// ---- receive side ---------------------------------------------------------

type recvStream struct {
	grpc.ClientStream
	r    *relay
	ctx  context.Context
	id   string
	dead error
	n    int
	// garbageFirst: the first Recv returns an undecodable message
	garbageFirst bool
}

func (r *relay) RecvStream(ctx context.Context, in *hashmailrpc.CipherBoxDesc, _ ...grpc.CallOption) (hashmailrpc.HashMail_RecvStreamClient, error) {
	if ctx.Err() != nil {
		return nil, status.Error(codes.Canceled, ctx.Err().Error())
	}
	id := sidKey(in.StreamId)
	r.mu.Lock()
	defer r.mu.Unlock()
	r.sids[id]++
	if r.faulty() && simrt.Pm(r.f.openErrPm, "relay.recvstream-err") {
		r.rc.Fault("relay-recvstream-error")
		return nil, status.Error(codes.Unavailable, "simulated relay failure")
	}
	rs := &recvStream{r: r, ctx: ctx, id: id}
	// (only the very first time a stream id is opened: a bounded number of
	// faults per session, so that "after the faults" exists)
	// ... or, with garbageAny, on any (re)opening of a stream while the relay's
	// fault period lasts
	if r.f.garbagePm > 0 && (r.sids[id] == 1 || r.f.garbageAny && r.faulty()) && simrt.Pm(r.f.garbagePm, "relay.garbage-first") {
		r.rc.Fault("relay-garbage-on-fresh-stream")
		rs.garbageFirst = true
	}
	return rs, nil
}

func (s *recvStream) Context() context.Context { return s.ctx }

// CloseSend on a server-streaming call only half-closes the request side,
// which is closed already; the relay keeps serving until the context ends.
func (s *recvStream) CloseSend() error { return nil }

func (s *recvStream) fail(err error) error {
	s.dead = err
	if b, ok := s.r.boxes[s.id]; ok && b.reader == s {
		b.reader = nil
	}
	return err
}

func (s *recvStream) Recv() (*hashmailrpc.CipherBox, error) {
	r := s.r
	if s.garbageFirst {
		s.garbageFirst = false
		return &hashmailrpc.CipherBox{Msg: []byte{0xEE}}, nil
	}
	for {
		if s.ctx.Err() != nil {
			r.mu.Lock()
			s.fail(status.Error(codes.Canceled, s.ctx.Err().Error()))
			r.mu.Unlock()
			return nil, s.dead
		}
		r.mu.Lock()
		if s.dead != nil {
			err := s.dead
			r.mu.Unlock()
			return nil, err
		}
		b, ok := r.boxes[s.id]
		if !ok {
			err := s.fail(status.Error(codes.NotFound, "stream not found"))
			r.mu.Unlock()
			r.note("recv: stream %s not found", s.id[:8]+s.id[len(s.id)-2:])
			return nil, err
		}
		if b.reader != nil && b.reader != s && b.reader.dead == nil && b.reader.ctx.Err() == nil {
			err := s.fail(status.Error(codes.Unavailable, "read stream occupied"))
			r.mu.Unlock()
			r.note("recv: stream %s read side occupied", s.id[:8]+s.id[len(s.id)-2:])
			return nil, err
		}
		b.reader = s
		now := r.rc.Now()
		if len(b.q) > 0 && b.q[0].at <= now {
			if r.faulty() && simrt.Pm(r.f.recvErrPm, "relay.recv-err") {
				r.rc.Fault("relay-recv-stream-error")
				err := s.fail(status.Error(codes.Unavailable, "simulated receive stream failure"))
				r.mu.Unlock()
				r.note("recv stream error on %s", s.id[:8])
				return nil, err
			}
			m := b.q[0]
			b.q = b.q[1:]
			more := len(b.q) > 0
			wake := b.wake
			select {
			case b.wwake <- struct{}{}:
			default:
			}
			r.mu.Unlock()
			if more {
				select {
				case wake <- struct{}{}:
				default:
				}
			}
			s.n++
			return &hashmailrpc.CipherBox{Desc: &hashmailrpc.CipherBoxDesc{StreamId: []byte(nil)}, Msg: m.b}, nil
		}
		var wait <-chan time.Time
		if len(b.q) > 0 {
			wait = time.After(b.q[0].at - now)
		}
		wake := b.wake
		r.mu.Unlock()
		select {
		case <-wake:
		case <-wait:
		case <-s.ctx.Done():
		}
	}
}

var _ hashmailrpc.HashMailClient = (*relay)(nil)

// swarmRelay draws a relay fault mix.
func swarmRelay(rc *simrt.RunCtx, until time.Duration) relayFaults {
	f := relayFaults{until: until, latMin: time.Millisecond, latMax: time.Duration(2+rc.Pick(40, "relay.latmax")) * time.Millisecond}
	pm := func(label string, vals ...int) int { return vals[rc.Pick(len(vals), label)] }
	f.dropPm = pm("relay.k.drop", 0, 0, 20, 100)
	f.delayPm = pm("relay.k.delay", 0, 20, 100)
	f.delay = time.Duration(200+rc.Pick(3000, "relay.k.delaylen")) * time.Millisecond
	f.recvErrPm = pm("relay.k.recverr", 0, 0, 10, 40)
	f.sendErrPm = pm("relay.k.senderr", 0, 0, 10, 40)
	f.openErrPm = pm("relay.k.openerr", 0, 100, 400)
	f.fullPm = pm("relay.k.full", 0, 0, 10)
	f.fullFor = time.Duration(1+rc.Pick(5, "relay.k.fullfor")) * time.Second
	rc.Knob("relay", fmt.Sprintf("until=%v drop=%d delay=%d/%v recverr=%d senderr=%d openerr=%d full=%d/%v lat<=%v", until, f.dropPm, f.delayPm, f.delay, f.recvErrPm, f.sendErrPm, f.openErrPm, f.fullPm, f.fullFor, f.latMax))
	return f
}

// outage makes the relay fail every stream operation until the given instant
// (C11's "relay failure" event).
func (r *relay) outage(until time.Duration) {
	r.mu.Lock()
	r.f.until = until
	r.f.recvErrPm, r.f.sendErrPm, r.f.openErrPm = 1000, 1000, 1000
	r.f.dropPm, r.f.delayPm, r.f.fullPm = 0, 0, 0
	// kill the streams that are sitting idle in Recv
	var wakes []chan struct{}
	for _, id := range r.boxIDs() {
		b := r.boxes[id]
		if b.reader != nil && b.reader.dead == nil {
			b.reader.dead = status.Error(codes.Unavailable, "simulated relay outage")
			b.reader = nil
		}
		wakes = append(wakes, b.wake)
	}
	r.mu.Unlock()
	for _, w := range wakes {
		select {
		case w <- struct{}{}:
		default:
		}
	}
	r.rc.Fault("relay-outage")
}

// restart models a relay process that is restarted: every mailbox and every
// queued message is lost, every stream dies, and until the given instant every
// call fails. Afterwards the relay works, with no memory of earlier mailboxes.
func (r *relay) restart(until time.Duration) {
	r.mu.Lock()
	r.f.until = until
	r.f.recvErrPm, r.f.sendErrPm, r.f.openErrPm = 1000, 1000, 1000
	r.f.dropPm, r.f.delayPm, r.f.fullPm = 0, 0, 0
	var wakes []chan struct{}
	for _, id := range r.boxIDs() {
		b := r.boxes[id]
		if b.reader != nil && b.reader.dead == nil {
			b.reader.dead = status.Error(codes.Unavailable, "simulated relay restart")
			b.reader = nil
		}
		if b.writer != nil {
			b.writer.dead = status.Error(codes.Unavailable, "simulated relay restart")
			b.writer = nil
		}
		wakes = append(wakes, b.wake, b.wwake)
		delete(r.boxes, id)
	}
	r.mu.Unlock()
	for _, w := range wakes {
		select {
		case w <- struct{}{}:
		default:
		}
	}
	r.note("restart: all mailboxes lost")
	r.rc.Fault("relay-restart")
}

// boxIDs: the mailbox ids in a fixed order (map iteration order must not leak
// into the schedule).
func (r *relay) boxIDs() []string {
	ids := make([]string, 0, len(r.boxes))
	for id := range r.boxes {
		ids = append(ids, id)
	}
	sort.Strings(ids)
	return ids
}

func (r *relay) blockedSenders() int {
	r.mu.Lock()
	defer r.mu.Unlock()
	return r.blocked
}

func (r *relay) sidCount(id string) int {
	r.mu.Lock()
	defer r.mu.Unlock()
	return r.sids[id]
}

// forge produces a relay-made message: garbage, a forged GBN control or data
// packet, a truncated / extended / bit-flipped copy of the authentic message,
// or a replay of something seen earlier in either direction.
func (r *relay) forge(authentic []byte) []byte {
	pick := func(n int, l string) int { return simrt.Choose(n, l) }
	switch pick(8, "forge.kind") {
	case 0:
		b := make([]byte, pick(40, "forge.len"))
		for i := range b {
			b[i] = byte(pick(256, "forge.byte"))
		}
		return b
	case 1: // GBN control packets with arbitrary field values
		return []byte{byte(1 + pick(6, "forge.type")), byte(pick(256, "forge.seq"))}
	case 2: // GBN DATA with garbage payload (reaches MsgData.Deserialize if in sequence)
		b := []byte{0x02, byte(pick(256, "forge.seq")), byte(pick(2, "forge.fin")), 0}
		for i := 0; i < pick(12, "forge.plen"); i++ {
			b = append(b, byte(pick(256, "forge.byte")))
		}
		return b
	case 3: // truncated copy
		return append([]byte(nil), authentic[:pick(len(authentic)+1, "forge.trunc")]...)
	case 4: // extended copy
		return append(append([]byte(nil), authentic...), byte(pick(256, "forge.ext")))
	case 5: // bit flip
		b := append([]byte(nil), authentic...)
		if len(b) > 0 {
			b[pick(len(b), "forge.pos")] ^= byte(1 << pick(8, "forge.bit"))
		}
		return b
	case 6: // replay of an earlier message of any direction
		if len(r.seen) > 0 {
			return append([]byte(nil), r.seen[pick(len(r.seen), "forge.replay")].msg...)
		}
	case 7: // DATA claiming a huge control-message length
		return []byte{0x02, byte(pick(256, "forge.seq")), 1, 0, 0, 0xff, 0xff, 0xff, 0xff, 1, 2, 3}
	}
	return []byte{}
}

// lossy makes the relay drop messages with the given per-mille rate until the
// given instant (streams stay up).
func (r *relay) lossy(until time.Duration, dropPm int) {
	r.mu.Lock()
	r.f.until = until
	r.f.dropPm = dropPm
	r.f.recvErrPm, r.f.sendErrPm, r.f.openErrPm, r.f.delayPm, r.f.fullPm = 0, 0, 0, 0, 0
	r.mu.Unlock()
	r.rc.Fault("relay-lossy-period")
}
