package mailbox

import (
	"context"
	"errors"
	"fmt"
	"net"
	"sync"
	"testing"
	"time"

	"github.com/btcsuite/btcd/btcec/v2"
	"github.com/lightningnetwork/lnd/keychain"
	"simrt"
)

// TestSim is the single entry point of the harness binary; /verif/check
// drives it through SIM_MODE.
func TestSim(t *testing.T) { simrt.WorkerMain(t) }

func init() {
	// the repo's own seam for cheap pairing-phrase stretching (the rpctest
	// parameters); a sample of runs switches back to the production cost
	scryptN = 16
}

const prodScryptN = 1 << 16

func fixed(n int) func(string) int { return func(string) int { return n } }

func tiered(q, th int) func(string) int {
	return func(tier string) int {
		if tier == "thorough" {
			return th
		}
		return q
	}
}

// ---- deterministic randomness (keys, passphrases, payloads) ---------------

type prng struct{ x uint64 }

func newPrng(seed uint64) *prng { return &prng{x: seed | 1} }

func (p *prng) next() uint64 {
	p.x += 0x9e3779b97f4a7c15
	z := p.x
	z = (z ^ (z >> 30)) * 0xbf58476d1ce4e5b9
	z = (z ^ (z >> 27)) * 0x94d049bb133111eb
	return z ^ (z >> 31)
}

func (p *prng) bytes(n int) []byte {
	b := make([]byte, n)
	for i := 0; i < n; i += 8 {
		v := p.next()
		for j := 0; j < 8 && i+j < n; j++ {
			b[i+j] = byte(v >> (8 * j))
		}
	}
	return b
}

func (p *prng) key() *btcec.PrivateKey {
	for {
		b := p.bytes(32)
		b[0] &= 0x7f
		k, _ := btcec.PrivKeyFromBytes(b)
		if k != nil && !k.Key.IsZero() {
			return k
		}
	}
}

func (p *prng) ecdh() keychain.SingleKeyECDH { return &keychain.PrivKeyECDH{PrivKey: p.key()} }

// installEphemeralGen makes the handshake's ephemeral keys a function of the
// run, so that wire bytes replay too.
func installEphemeralGen(p *prng) {
	var mu sync.Mutex
	ephemeralGen = func() (*btcec.PrivateKey, error) {
		mu.Lock()
		defer mu.Unlock()
		return p.key(), nil
	}
}

// marker returns high-entropy bytes that cannot appear on the wire by chance.
func marker(tag uint64, n int) []byte { return newPrng(tag*0x9e3779b97f4a7c15 + 77).bytes(n) }

func eqBytes(a, b []byte) bool {
	if len(a) != len(b) {
		return false
	}
	for i := range a {
		if a[i] != b[i] {
			return false
		}
	}
	return true
}

func hasPrefix(full, p []byte) bool { return len(p) <= len(full) && eqBytes(full[:len(p)], p) }

// containsWindow reports whether any w-byte window of needle occurs in hay.
func containsWindow(hay, needle []byte, w int) bool {
	if len(needle) < w || len(hay) < w {
		return false
	}
	idx := map[string]bool{}
	for i := 0; i+w <= len(needle); i++ {
		idx[string(needle[i:i+w])] = true
	}
	for i := 0; i+w <= len(hay); i++ {
		if idx[string(hay[i:i+w])] {
			return true
		}
	}
	return false
}

// ---- in-memory duplex byte stream with an adversary stage -----------------

type timeoutErr struct{}

func (timeoutErr) Error() string   { return "i/o timeout" }
func (timeoutErr) Timeout() bool   { return true }
func (timeoutErr) Temporary() bool { return true }

var errClosedPipe = errors.New("simulated stream closed")

// half is one direction of a duplex: a byte queue fed by write segments.
type half struct {
	mu      sync.Mutex
	buf     []byte
	closed  bool
	wake    chan struct{}
	written []byte   // everything the writer handed over (before the adversary)
	wire    []byte   // everything that actually went onto the wire (after it)
	segs    [][]byte // write segments as issued by the writer
	// adversary: called with the index and bytes of each write segment,
	// returns the segments to put on the wire instead.
	adv func(i int, seg []byte) [][]byte
	// fragmentation: each Read returns at most frag() bytes (nil: all)
	frag func() int
	// partial writes: wlimit returns how many bytes of this Write call are
	// accepted before a timeout error is returned (<0: all)
	wlimit func(n int) int
}

func newHalf() *half { return &half{wake: make(chan struct{}, 1)} }

func (h *half) signal() {
	select {
	case h.wake <- struct{}{}:
	default:
	}
}

func (h *half) write(b []byte) (int, error) {
	h.mu.Lock()
	if h.closed {
		h.mu.Unlock()
		return 0, errClosedPipe
	}
	n := len(b)
	var err error
	if h.wlimit != nil {
		if k := h.wlimit(len(b)); k >= 0 && k < len(b) {
			n = k
			err = timeoutErr{}
		}
	}
	seg := append([]byte(nil), b[:n]...)
	h.written = append(h.written, seg...)
	i := len(h.segs)
	h.segs = append(h.segs, seg)
	out := [][]byte{seg}
	if h.adv != nil {
		out = h.adv(i, seg)
	}
	for _, s := range out {
		h.buf = append(h.buf, s...)
		h.wire = append(h.wire, s...)
	}
	h.mu.Unlock()
	h.signal()
	return n, err
}

// inject puts bytes on the wire that the writer never wrote.
func (h *half) inject(b []byte) {
	h.mu.Lock()
	h.buf = append(h.buf, b...)
	h.wire = append(h.wire, b...)
	h.mu.Unlock()
	h.signal()
}

func (h *half) read(p []byte, deadline func() time.Time) (int, error) {
	for {
		h.mu.Lock()
		if len(h.buf) > 0 {
			n := len(p)
			if n > len(h.buf) {
				n = len(h.buf)
			}
			if h.frag != nil {
				if k := h.frag(); k > 0 && k < n {
					n = k
				}
			}
			copy(p, h.buf[:n])
			h.buf = h.buf[n:]
			more := len(h.buf) > 0
			h.mu.Unlock()
			if more {
				h.signal()
			}
			return n, nil
		}
		closed := h.closed
		h.mu.Unlock()
		if closed {
			return 0, errClosedPipe
		}
		if len(p) == 0 {
			return 0, nil
		}
		var to <-chan time.Time
		if dl := deadline(); !dl.IsZero() {
			d := time.Until(dl)
			if d <= 0 {
				return 0, timeoutErr{}
			}
			to = time.After(d)
		}
		select {
		case <-h.wake:
		case <-to:
			return 0, timeoutErr{}
		}
	}
}

func (h *half) close() {
	h.mu.Lock()
	h.closed = true
	h.mu.Unlock()
	h.signal()
}

// simConn is one end of a duplex; it implements net.Conn and ProxyConn.
type simConn struct {
	name string
	in   *half // we read from it
	out  *half // we write to it
	mu   sync.Mutex
	rdl  time.Time
}

func newDuplex() (*simConn, *simConn) {
	a2b, b2a := newHalf(), newHalf()
	return &simConn{name: "A", in: b2a, out: a2b}, &simConn{name: "B", in: a2b, out: b2a}
}

func (c *simConn) Read(p []byte) (int, error) {
	return c.in.read(p, func() time.Time {
		c.mu.Lock()
		defer c.mu.Unlock()
		return c.rdl
	})
}
func (c *simConn) Write(p []byte) (int, error) { return c.out.write(p) }
func (c *simConn) Close() error                { c.in.close(); c.out.close(); return nil }
func (c *simConn) LocalAddr() net.Addr         { return &Addr{Server: "sim-" + c.name} }
func (c *simConn) RemoteAddr() net.Addr        { return &Addr{Server: "sim-peer-of-" + c.name} }
func (c *simConn) SetDeadline(t time.Time) error {
	return c.SetReadDeadline(t)
}
func (c *simConn) SetReadDeadline(t time.Time) error {
	c.mu.Lock()
	c.rdl = t
	c.mu.Unlock()
	c.in.signal()
	return nil
}
func (c *simConn) SetWriteDeadline(time.Time) error   { return nil }
func (c *simConn) ReceiveControlMsg(ControlMsg) error { return nil }
func (c *simConn) SendControlMsg(ControlMsg) error    { return nil }
func (c *simConn) SetRecvTimeout(time.Duration)       {}
func (c *simConn) SetSendTimeout(time.Duration)       {}

var _ ProxyConn = (*simConn)(nil)

// ---- handshake helpers ------------------------------------------------------

type party struct {
	key      keychain.SingleKeyECDH
	data     *ConnData
	conn     *NoiseGrpcConn
	net      net.Conn // result of the handshake
	err      error
	done     chan struct{}
	gotAuth  [][]byte
	gotKeys  []*btcec.PublicKey
	minV     byte
	maxV     byte
	finished time.Duration
	// refused: a callback of this party was invoked and returned an error
	refused []string
}

type hsSpec struct {
	cliPass, srvPass []byte
	cliKey, srvKey   keychain.SingleKeyECDH
	cliRemote        *btcec.PublicKey // nil: XX
	srvRemote        *btcec.PublicKey
	auth             []byte
	cMin, cMax       byte
	sMin, sMax       byte
	// callbacks that refuse (return an error): the application cannot store
	// the key / does not accept the payload
	cliRefuseKey, cliRefuseAuth, srvRefuseKey bool
}

// runHandshake runs ClientHandshake and ServerHandshake as two tasks over the
// given duplex ends; start order is a tape choice.
func runHandshake(rc *simrt.RunCtx, sp hsSpec, ca, cb *simConn) (cli, srv *party) {
	mk := func(key keychain.SingleKeyECDH, remote *btcec.PublicKey, pass, auth []byte, minV, maxV byte, refuseKey, refuseAuth bool) *party {
		p := &party{key: key, done: make(chan struct{}), minV: minV, maxV: maxV}
		p.data = NewConnData(key, remote, pass, auth,
			func(k *btcec.PublicKey) error {
				if refuseKey {
					p.refused = append(p.refused, "onRemoteStatic")
					return errors.New("application refuses the remote key")
				}
				p.gotKeys = append(p.gotKeys, k)
				return nil
			},
			func(d []byte) error {
				if refuseAuth {
					p.refused = append(p.refused, "onAuthData")
					return errors.New("application refuses the auth data")
				}
				p.gotAuth = append(p.gotAuth, append([]byte(nil), d...))
				return nil
			})
		p.conn = NewNoiseGrpcConn(p.data, WithMinHandshakeVersion(minV), WithMaxHandshakeVersion(maxV))
		return p
	}
	cli = mk(sp.cliKey, sp.cliRemote, sp.cliPass, nil, sp.cMin, sp.cMax, sp.cliRefuseKey, sp.cliRefuseAuth)
	// the responder's application hands over its payload in a slice of its own,
	// with or without spare capacity (sp.auth stays the oracle's pristine copy)
	srvAuth := sp.auth
	if sp.auth != nil {
		spare := []int{0, 16, 64, 4096}[rc.Pick(4, "wl.auth-spare-capacity")]
		srvAuth = append(make([]byte, 0, len(sp.auth)+spare), sp.auth...)
	}
	srv = mk(sp.srvKey, sp.srvRemote, sp.srvPass, srvAuth, sp.sMin, sp.sMax, sp.srvRefuseKey, false)
	startC := func() {
		go func() {
			cli.net, _, cli.err = cli.conn.ClientHandshake(context.Background(), "", ca)
			cli.finished = rc.Now()
			close(cli.done)
		}()
	}
	startS := func() {
		go func() {
			srv.net, _, srv.err = srv.conn.ServerHandshake(cb)
			srv.finished = rc.Now()
			close(srv.done)
		}()
	}
	if rc.Pick(2, "hs.startorder") == 0 {
		startS()
		startC()
	} else {
		startC()
		startS()
	}
	return
}

func waitParties(ps ...*party) {
	for _, p := range ps {
		<-p.done
	}
}

func splitDone(m *Machine) bool {
	return m != nil && m.sendCipher.cipher != nil && m.recvCipher.cipher != nil
}

func describeErr(err error) string {
	if err == nil {
		return "ok"
	}
	return fmt.Sprintf("err(%v)", err)
}
