package mailbox

// The full LNC stack in the simulator: real Server.Accept / Client.Dial (one
// live connection per session), real ServerConn / ClientConn with their retry
// loops, real GBN underneath, real NoiseGrpcConn handshake and records on top,
// over the stub relay. The application above it is what gRPC would be: a
// server loop (Accept -> ServerHandshake -> serve -> Close) and a client loop
// (Dial -> ClientHandshake -> transfer -> Close), each retrying on failure.

import (
	"context"
	"encoding/binary"
	"errors"
	"fmt"
	"io"
	"net"
	"sync"
	"time"

	"github.com/btcsuite/btcd/btcec/v2"
	"github.com/lightningnetwork/lnd/keychain"
	"simrt"
)

type stackSide struct {
	name     string
	key      keychain.SingleKeyECDH
	data     *ConnData
	creds    *NoiseGrpcConn
	mu       sync.Mutex
	gotKeys  []*btcec.PublicKey
	gotAuth  [][]byte
	insts    []*instance
	attempts int // Accept / Dial calls that returned
	hsFails  int
	errs     []string
}

// instance is one secured connection handed to the application on one side.
type instance struct {
	side      string
	k         int
	conn      net.Conn // the secured conn
	raw       net.Conn // what Accept / Dial returned
	pattern   string
	plan      int // bytes this side writes on this instance (header included)
	written   int
	read      int
	peerTotal int // learnt from the peer's header, 0 = not yet
	peerSide  byte
	peerK     int
	failed    error
	done      bool // own plan written and the peer's plan read
	doneAt    time.Duration
	openedAt  time.Duration
	lastMove  time.Duration
	closedAt  time.Duration
}

// closeErrTransport makes the client transport's CloseSend/CloseReceive
// report an error after they have done their work - what closing an already
// broken websocket does (the gRPC streams never report one).
type closeErrTransport struct {
	ClientConnTransport
	rc *simrt.RunCtx
	pm int
}

func (t *closeErrTransport) Refresh() ClientConnTransport {
	return &closeErrTransport{t.ClientConnTransport.Refresh(), t.rc, t.pm}
}

func (t *closeErrTransport) CloseSend() error {
	err := t.ClientConnTransport.CloseSend()
	if err == nil && simrt.Pm(t.pm, "transport.close-error") {
		t.rc.Fault("transport-close-error")
		return errors.New("simulated: close of an already broken socket")
	}
	return err
}

func (t *closeErrTransport) CloseReceive() error {
	err := t.ClientConnTransport.CloseReceive()
	if err == nil && simrt.Pm(t.pm, "transport.close-error") {
		t.rc.Fault("transport-close-error")
		return errors.New("simulated: close of an already broken socket")
	}
	return err
}

// wrapTransport installs closeErrTransport on a connection that Dial returned.
func (st *stack) wrapTransport(raw net.Conn) {
	cc, ok := raw.(*ClientConn)
	if !ok || cc == nil || st.closeErrPm == 0 {
		return
	}
	// (no lock: receiveMu is held for as long as a Recv blocks; under the
	// simulator exactly one task runs between two scheduling points, so the
	// plain store cannot interleave with a use of the field)
	if _, done := cc.transport.(*closeErrTransport); !done {
		cc.transport = &closeErrTransport{cc.transport, st.rc, st.closeErrPm}
	}
}

type stack struct {
	closeErrPm int // per-mille probability that a client transport close reports an error
	rc     *simrt.RunCtx
	relay  *relay
	srv    *Server
	cli    *Client
	S, C   *stackSide
	ctx    context.Context
	cancel func()
	stop   chan struct{}
	wg     sync.WaitGroup
	mu     sync.Mutex
	plain  map[string]bool // 16-byte aligned windows of everything written
	auth   []byte
	// planner decides how many bytes an instance writes and in which sizes
	planBytes func(side string, k int) int
	writeSize func(side string) int
	readSize  func(side string) int
	// onInstanceDone lets a scenario decide what happens once an instance
	// transferred everything: return true to close it from this side.
	afterDone func(in *instance) bool
	// writePause, if set, is consulted before every write and may return an
	// idle period (keepalive pings then flow and are exposed to relay faults)
	writePause func(side string) time.Duration
	// abandonAt: after how many bytes read the application of this instance
	// loses interest (a cancelled RPC): it stops reading and closes the
	// connection, possibly with part of a record still undelivered (0 = never)
	abandonAt func(in *instance) int
	// redialPause: how long the client application waits after its k-th
	// connection ended before it dials again (nil = immediately).
	redialPause func(k int) time.Duration
	// eager: Accept is called again immediately (as gRPC does) and Dial may
	// be called while a connection is still open
	eager bool
}

func newStack(rc *simrt.RunCtx, rl *relay, pr *prng, authSize int, maxVersion byte) *stack {
	return newStackV(rc, rl, pr, authSize, maxVersion, maxVersion)
}

// newStackV: the two sides may support different maximum handshake versions.
func newStackV(rc *simrt.RunCtx, rl *relay, pr *prng, authSize int, maxVClient, maxVServer byte) *stack {
	st := &stack{rc: rc, relay: rl, stop: make(chan struct{}), plain: map[string]bool{}}
	st.ctx, st.cancel = context.WithCancel(context.Background())
	pass := pr.bytes(14)
	st.auth = marker(rc.Seed()^0xa07, authSize)
	mk := func(name string, auth []byte, maxVersion byte) *stackSide {
		sd := &stackSide{name: name, key: pr.ecdh()}
		sd.data = NewConnData(sd.key, nil, append([]byte(nil), pass...), auth,
			func(k *btcec.PublicKey) error {
				sd.mu.Lock()
				sd.gotKeys = append(sd.gotKeys, k)
				sd.mu.Unlock()
				return nil
			},
			func(d []byte) error {
				sd.mu.Lock()
				sd.gotAuth = append(sd.gotAuth, append([]byte(nil), d...))
				sd.mu.Unlock()
				return nil
			})
		sd.creds = NewNoiseGrpcConn(sd.data, WithMaxHandshakeVersion(maxVersion))
		return sd
	}
	st.S, st.C = mk("server", st.auth, maxVServer), mk("client", nil, maxVClient)
	st.srv = newSimServer(rl, st.S.data)
	st.cli = newSimClient(st.ctx, rl, st.C.data)
	st.planBytes = func(string, int) int { return 16 + rc.Pick(60000, "wl.plan") }
	st.writeSize = func(string) int { return c05WriteSize(rc) }
	st.readSize = func(string) int { return 32*1024 + rc.Pick(40000, "wl.rdbuf") }
	return st
}

func newSimServer(rl *relay, cd *ConnData) *Server {
	s := &Server{serverHost: "sim-relay", client: rl, connData: cd, log: log.WithPrefix("(server)"), quit: make(chan struct{})}
	s.sid, _ = cd.SID()
	s.ctx, s.cancel = context.WithCancel(context.Background())
	return s
}

func newSimClient(ctx context.Context, rl *relay, cd *ConnData) *Client {
	c, err := NewClient(ctx, "sim-relay", cd, func(c *Client) { c.grpcClient = rl })
	if err != nil {
		panic(err)
	}
	return c
}

func c05WriteSize(rc *simrt.RunCtx) int {
	switch rc.Pick(7, "wl.wkind") {
	case 0:
		return 0
	case 1:
		return 1
	case 2:
		return 1 + rc.Pick(100, "wl.w")
	case 3:
		return 1 + rc.Pick(5000, "wl.w")
	case 4:
		return 16384
	case 5:
		return 1 + rc.Pick(65535, "wl.w")
	}
	return 65535
}

// stream content: instance (side, k) writes hdr(16) followed by gen(side,k)
// bytegen yields one fixed pseudo-random byte stream regardless of how it is
// cut into pieces (writer and reader cut it differently).
type bytegen struct {
	p   *prng
	buf []byte
}

func (g *bytegen) bytes(n int) []byte {
	for len(g.buf) < n {
		g.buf = append(g.buf, g.p.bytes(4096)...)
	}
	out := append([]byte(nil), g.buf[:n]...)
	g.buf = g.buf[n:]
	return out
}

func streamGen(side byte, k int) *bytegen {
	return &bytegen{p: newPrng(uint64(side)<<40 | uint64(k)<<8 | 0x5d)}
}

func mkHeader(side byte, k, total int) []byte {
	h := make([]byte, 16)
	copy(h, "LNC!")
	binary.BigEndian.PutUint32(h[4:], uint32(side)<<24|uint32(k)&0xffffff)
	binary.BigEndian.PutUint64(h[8:], uint64(total))
	return h
}

func (st *stack) notePlain(p []byte) {
	st.mu.Lock()
	for i := 0; i+16 <= len(p); i += 16 {
		st.plain[string(p[i:i+16])] = true
	}
	st.mu.Unlock()
}

func (st *stack) stopped() bool {
	select {
	case <-st.stop:
		return true
	default:
		return false
	}
}

// runInstance drives one secured connection until it fails or both plans are
// transferred and the scenario closes it.
func (st *stack) runInstance(sd *stackSide, in *instance) {
	side := byte(sd.name[0])
	in.plan = st.planBytes(sd.name, in.k)
	if in.plan < 16 {
		in.plan = 16
	}
	gen := streamGen(side, in.k)
	var iwg sync.WaitGroup
	fail := func(err error) {
		sd.mu.Lock()
		if in.failed == nil {
			in.failed = err
		}
		sd.mu.Unlock()
		simrt.Note("%s instance %d failed: %v (written %d/%d read %d/%d)", sd.name, in.k, err, in.written, in.plan, in.read, in.peerTotal)
	}
	closeReq := make(chan struct{})
	var closeReqOnce sync.Once
	abandon := 0
	if st.abandonAt != nil {
		abandon = st.abandonAt(in)
	}
	checkDone := func() {
		sd.mu.Lock()
		complete := in.peerTotal > 0 && in.read == in.peerTotal && in.written == in.plan
		first := complete && !in.done
		if first {
			in.done = true
			in.doneAt = st.rc.Now()
		}
		sd.mu.Unlock()
		if first && st.afterDone != nil && st.afterDone(in) {
			closeReqOnce.Do(func() { close(closeReq) })
		}
	}
	iwg.Add(2)
	go func() { // writer
		defer iwg.Done()
		defer checkDone()
		first := true
		for in.written < in.plan {
			var p []byte
			if first {
				p = mkHeader(side, in.k, in.plan)
				first = false
			} else {
				n := st.writeSize(sd.name)
				if n > in.plan-in.written {
					n = in.plan - in.written
				}
				p = gen.bytes(n)
			}
			if st.writePause != nil {
				if d := st.writePause(sd.name); d > 0 {
					select {
					case <-time.After(d):
					case <-st.stop:
						return
					}
				}
			}
			st.notePlain(p)
			n, err := in.conn.Write(p)
			if err != nil {
				fail(fmt.Errorf("write: %w", err))
				return
			}
			if n != len(p) {
				st.rc.Violate("c05.short-write", sd.name, "%s instance %d: Write of %d bytes returned n=%d without error", sd.name, in.k, len(p), n)
				return
			}
			sd.mu.Lock()
			in.written += n
			in.lastMove = st.rc.Now()
			sd.mu.Unlock()
			st.rc.Progress()
		}
	}()
	go func() { // reader
		defer iwg.Done()
		var hdr []byte
		var pgen *bytegen
		for {
			buf := make([]byte, st.readSize(sd.name))
			n, err := in.conn.Read(buf)
			if n > len(buf) {
				st.rc.Violate("c15.n>len", "connKit/"+sd.name, "%s instance %d: Read into a %d-byte buffer returned n=%d", sd.name, in.k, len(buf), n)
				return
			}
			b := buf[:n]
			for len(b) > 0 {
				if len(hdr) < 16 {
					take := 16 - len(hdr)
					if take > len(b) {
						take = len(b)
					}
					hdr = append(hdr, b[:take]...)
					b = b[take:]
					if len(hdr) == 16 {
						if string(hdr[:4]) != "LNC!" || (hdr[4] != 'c' && hdr[4] != 's') || hdr[4] == side {
							st.rc.Violate("c05.stream-differs", sd.name+"/header", "%s instance %d: the first 16 bytes read are not a peer stream header: %x", sd.name, in.k, hdr)
							return
						}
						sd.mu.Lock()
						in.peerSide = hdr[4]
						in.peerK = int(binary.BigEndian.Uint32(hdr[4:8]) & 0xffffff)
						in.peerTotal = int(binary.BigEndian.Uint64(hdr[8:]))
						pgen = streamGen(in.peerSide, in.peerK)
						sd.mu.Unlock()
					}
					continue
				}
				want := pgen.bytes(len(b))
				if !eqBytes(b, want) {
					st.rc.Violate("c05.stream-differs", sd.name, "%s instance %d: bytes read from the peer's instance %d differ from what it wrote (%d bytes read so far, first difference %d bytes into this read of %d)", sd.name, in.k, in.peerK, in.read, firstDiff(b, want), len(b))
					return
				}
				b = nil
			}
			sd.mu.Lock()
			in.read += n
			if n > 0 {
				in.lastMove = st.rc.Now()
			}
			over := in.peerTotal > 0 && in.read > in.peerTotal
			sd.mu.Unlock()
			if over {
				st.rc.Violate("c05.stream-differs", sd.name+"/extra-bytes", "%s instance %d: read %d bytes, the peer announced %d", sd.name, in.k, in.read, in.peerTotal)
				return
			}
			if err != nil {
				fail(fmt.Errorf("read: %w", err))
				return
			}
			checkDone()
			if abandon > 0 && in.read >= abandon {
				sd.mu.Lock()
				done := in.done
				sd.mu.Unlock()
				if !done {
					st.rc.Probe("stack.abandoned-mid-transfer")
					simrt.Note("%s instance %d: application stops reading after %d bytes and closes", sd.name, in.k, in.read)
					closeReqOnce.Do(func() { close(closeReq) })
					return
				}
			}
		}
	}()
	// a watcher closes the connection once a task failed (as gRPC does when
	// a read fails) or the scenario asks for it
	fin := make(chan struct{})
	go func() { iwg.Wait(); close(fin) }()
	select {
	case <-fin:
	case <-closeReq:
	case <-st.stop:
	}
	in.conn.Close()
	iwg.Wait()
	sd.mu.Lock()
	in.closedAt = st.rc.Now()
	sd.mu.Unlock()
}

// doneCh returns the Done channel of a raw mailbox connection.
func doneCh(raw net.Conn) <-chan struct{} {
	switch c := raw.(type) {
	case *ServerConn:
		return c.Done()
	case *ClientConn:
		return c.Done()
	}
	return nil
}

// oneLive checks C11's first clause when Accept / Dial hands out a connection:
// the previous one must already be closed.
func (st *stack) oneLive(sd *stackSide, what string, prev net.Conn) {
	if prev == nil {
		return
	}
	select {
	case <-doneCh(prev):
		st.rc.Probe("c11.handout-after-previous-closed")
	default:
		st.rc.Violate("c11.two-live-connections", sd.name, "%s returned a new connection while the previous one is still open", what)
	}
}

func (st *stack) serveRaw(sd *stackSide, raw net.Conn) {
	pattern := sd.data.HandshakePattern().Name
	conn, _, err := sd.creds.ServerHandshake(raw)
	if err != nil {
		sd.mu.Lock()
		sd.hsFails++
		sd.mu.Unlock()
		sd.note("server handshake: %v", err)
		raw.Close()
		return
	}
	sd.mu.Lock()
	in := &instance{side: "server", k: len(sd.insts), conn: conn, raw: raw, pattern: pattern, openedAt: st.rc.Now(), lastMove: st.rc.Now()}
	sd.insts = append(sd.insts, in)
	sd.mu.Unlock()
	st.runInstance(sd, in)
}

func (st *stack) serverLoop() {
	defer st.wg.Done()
	sd := st.S
	var prev net.Conn
	for !st.stopped() {
		raw, err := st.srv.Accept()
		sd.mu.Lock()
		sd.attempts++
		sd.mu.Unlock()
		if err != nil {
			if errors.Is(err, io.EOF) {
				return
			}
			sd.note("accept: %v", err)
			select {
			case <-st.stop:
				return
			case <-time.After(100 * time.Millisecond):
			}
			continue
		}
		st.rc.Probe("stack.accepted")
		st.oneLive(sd, "Accept", prev)
		prev = raw
		if st.eager {
			// as gRPC: hand the connection to a goroutine and call Accept
			// again at once
			st.wg.Add(1)
			go func() {
				defer st.wg.Done()
				st.serveRaw(sd, raw)
			}()
			continue
		}
		st.serveRaw(sd, raw)
	}
}

func (st *stack) clientLoop() {
	defer st.wg.Done()
	sd := st.C
	backoff := func() bool {
		select {
		case <-st.stop:
			return false
		case <-time.After(time.Second):
			return true
		}
	}
	type dialRes struct {
		raw net.Conn
		err error
	}
	var early chan dialRes
	var prev net.Conn
	for !st.stopped() {
		var raw net.Conn
		var err error
		if early != nil {
			select {
			case r := <-early:
				raw, err = r.raw, r.err
			case <-st.stop:
				return
			}
			early = nil
		} else {
			raw, err = st.cli.Dial(st.ctx, "")
		}
		if err == nil && raw != nil {
			st.wrapTransport(raw)
		}
		sd.mu.Lock()
		sd.attempts++
		sd.mu.Unlock()
		if err != nil {
			sd.note("dial: %v", err)
			if !backoff() {
				return
			}
			continue
		}
		st.rc.Probe("stack.dialed")
		st.oneLive(sd, "Dial", prev)
		prev = raw
		pattern := sd.data.HandshakePattern().Name
		conn, _, err := sd.creds.ClientHandshake(st.ctx, "", raw)
		if err != nil {
			sd.mu.Lock()
			sd.hsFails++
			sd.mu.Unlock()
			sd.note("client handshake: %v", err)
			raw.Close()
			if !backoff() {
				return
			}
			continue
		}
		sd.mu.Lock()
		in := &instance{side: "client", k: len(sd.insts), conn: conn, raw: raw, pattern: pattern, openedAt: st.rc.Now(), lastMove: st.rc.Now()}
		sd.insts = append(sd.insts, in)
		sd.mu.Unlock()
		if st.eager && st.rc.Pick(2, "wl.earlydial") == 1 {
			// Dial called while this connection is still open
			ch := make(chan dialRes, 1)
			early = ch
			delay := time.Duration(st.rc.Pick(3000, "wl.earlydial-at")) * time.Millisecond
			st.wg.Add(1)
			go func() {
				defer st.wg.Done()
				select {
				case <-time.After(delay):
				case <-st.stop:
					ch <- dialRes{nil, errors.New("stopped")}
					return
				}
				st.rc.Probe("c11.early-dial")
				// gRPC dials with a context that may expire while Dial is
				// still waiting for the previous connection to end
				dctx := st.ctx
				if st.rc.Pick(2, "wl.earlydial-ctx") == 1 {
					var dcancel func()
					dctx, dcancel = context.WithTimeout(st.ctx, time.Duration(200+st.rc.Pick(5000, "wl.earlydial-timeout"))*time.Millisecond)
					defer dcancel()
					st.rc.Probe("c11.early-dial-with-deadline")
				}
				r, e := st.cli.Dial(dctx, "")
				if e == nil && r != nil {
					st.wrapTransport(r)
				}
				ch <- dialRes{r, e}
			}()
		}
		st.runInstance(sd, in)
		if st.redialPause != nil {
			// application think time between two connections of a session
			if d := st.redialPause(in.k); d > 0 {
				select {
				case <-time.After(d):
				case <-st.stop:
					return
				}
			}
		}
	}
}

func (sd *stackSide) note(f string, a ...any) {
	s := fmt.Sprintf(f, a...)
	sd.mu.Lock()
	if len(sd.errs) < 50 {
		sd.errs = append(sd.errs, s)
	}
	sd.mu.Unlock()
	simrt.Note("%s app: %s", sd.name, s)
}

func (st *stack) start() {
	st.wg.Add(2)
	if st.rc.Pick(2, "wl.startorder") == 0 {
		go st.serverLoop()
		go st.clientLoop()
	} else {
		go st.clientLoop()
		go st.serverLoop()
	}
}

// shutdown stops both application loops and the listener/dialer.
func (st *stack) shutdown() {
	close(st.stop)
	st.srv.Close()
	st.cancel()
	done := make(chan struct{})
	go func() { st.wg.Wait(); close(done) }()
	select {
	case <-done:
	case <-time.After(2 * time.Minute):
		st.rc.Probe("stack.loops-did-not-stop")
	}
}

func (sd *stackSide) current() *instance {
	sd.mu.Lock()
	defer sd.mu.Unlock()
	if len(sd.insts) == 0 {
		return nil
	}
	return sd.insts[len(sd.insts)-1]
}

func (sd *stackSide) snapshot(in *instance) instance {
	sd.mu.Lock()
	defer sd.mu.Unlock()
	return *in
}

// oneSidedPairing reports whether exactly one side stored the other's static
// key although a connection on which data flowed in both directions (so both
// Noise handshakes had completed) exists. A legitimate half-pairing - the
// responder never saw act 3 - has no such connection.
func (st *stack) oneSidedPairing() (bool, string) {
	st.C.mu.Lock()
	ck := len(st.C.gotKeys)
	var cdone []int
	for _, in := range st.C.insts {
		if in.peerTotal > 0 {
			cdone = append(cdone, in.k)
		}
	}
	st.C.mu.Unlock()
	st.S.mu.Lock()
	sk := len(st.S.gotKeys)
	both := -1
	for _, in := range st.S.insts {
		if in.peerTotal > 0 {
			for _, k := range cdone {
				if in.peerK == k {
					both = k
				}
			}
		}
	}
	st.S.mu.Unlock()
	if (ck > 0) == (sk > 0) || both < 0 {
		return false, ""
	}
	who := "the client stored the server's key, the server stored nothing"
	if sk > 0 {
		who = "the server stored the client's key, the client stored nothing"
	}
	return true, who
}
