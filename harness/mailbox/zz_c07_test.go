package mailbox

// C07 (mailbox part) - no bytes delivered by the untrusted relay can crash an
// endpoint: control-message framing, the websocket JSON envelope, Noise
// handshake acts, the encrypted stream, and forged packets injected into a
// live full-stack session.

import (
	"bytes"
	"fmt"
	"time"

	"simrt"
)

func init() {
	simrt.Register(&simrt.Scenario{
		Prop: "C07", Name: "mb-msgdata", Enumerated: true, Count: fixed(258),
		Run: c07MsgData, MaxOps: 1 << 40, Serial: true,
		Doc: "MsgData.Deserialize on every byte string of length 0..3 (per first byte) and on every 5-byte header with boundary length fields followed by 0..3 payload bytes",
	})
	simrt.Register(&simrt.Scenario{
		Prop: "C07", Name: "mb-json-envelope", Enumerated: true, Count: fixed(1),
		Run: c07JSON, MaxOps: 1 << 30, Serial: true,
		Doc: "stripJSONWrapper on a grammar of well-formed, nested, truncated, empty and oversized result/error envelopes",
	})
	simrt.Register(&simrt.Scenario{
		Prop: "C07", Name: "mb-noise-garbage", Count: tiered(4000, 480000),
		Run: c07Noise, MaxOps: 1 << 20, Horizon: time.Hour,
		Doc: "a real responder / initiator is fed garbage, truncated, extended or mutated handshake acts (act 1, 2 or 3; XX and KK; all versions) and garbage in place of encrypted records; it must return errors, never panic",
	})
	simrt.Register(&simrt.Scenario{
		Prop: "C07", Name: "mb-inject-live", Count: tiered(250, 120000),
		Run: func(rc *simrt.RunCtx) { c05RunX(rc, true, true) }, MaxOps: 6 << 20, Horizon: 6 * time.Hour,
		Doc: "the full stack over the stub relay, which - besides dropping/delaying/breaking streams - delivers forged messages (garbage, GBN control/data packets with arbitrary fields, truncated/extended/flipped/replayed authentic messages, oversized control-message lengths) until a tape-chosen instant; no task may panic, streams must stay equal or fail visibly, and a connection opened afterwards must work",
	})
}

func c07MsgData(rc *simrt.RunCtx) {
	idx := rc.Idx()
	cases := 0
	try := func(b []byte) {
		cases++
		m := NewMsgData(0, nil)
		err := m.Deserialize(b)
		if err == nil {
			if len(b) < 5 {
				rc.Violate("c07.msgdata", "short-accepted", "MsgData.Deserialize accepted %d bytes: %x", len(b), b)
				return
			}
			out, err2 := m.Serialize()
			if err2 != nil || !bytes.HasPrefix(b, out) {
				rc.Violate("c07.msgdata", "reserialize-differs", "MsgData.Deserialize(%x) succeeded but re-serializes to %x (%v)", b, out, err2)
			}
		}
	}
	switch {
	case idx == 256:
		try(nil)
		try([]byte{})
		rc.Sample("empty input")
	case idx == 257:
		lens := []uint32{0, 1, 2, 3, 4, 5, 0x7f, 0x80, 0xff, 0x100, 0xffff, 0x10000, 0x7ffffffb, 0x7ffffffc, 0x7fffffff, 0x80000000, 0xfffffffa, 0xfffffffb, 0xffffffff}
		for v := 0; v < 256; v++ {
			for _, l := range lens {
				for tail := 0; tail <= 3; tail++ {
					b := []byte{byte(v), byte(l >> 24), byte(l >> 16), byte(l >> 8), byte(l)}
					b = append(b, make([]byte, tail)...)
					try(b)
				}
			}
		}
		rc.Sample("5-byte headers: 256 versions x %d boundary length values x 0..3 payload bytes", len(lens))
	default:
		buf := []byte{byte(idx), 0, 0}
		try(buf[:1])
		for a := 0; a < 256; a++ {
			buf[1] = byte(a)
			try(buf[:2])
			for b := 0; b < 256; b++ {
				buf[2] = byte(b)
				try(buf[:3])
			}
		}
		rc.Sample("all strings of length 1..3 starting with 0x%02x", idx)
	}
	rc.ProbeN("c07.msgdata-cases", cases)
	rc.Progress()
	rc.Fault(fmt.Sprintf("enumerated-%d", idx))
}

func c07JSON(rc *simrt.RunCtx) {
	parts := []string{"", "{", "}", "{}", `{"result":`, `{"error":`, `"result"`, `{"result":{}}`, `{"error":{}}`, `{"result":{"msg":"AAAA"}}`,
		`{"error":{"code":5,"message":"stream not found"}}`, `{"result":{"result":{}}}`, `{"result":}`, `{"error":}`, "\x00", "\xff\xfe", "null", "[]",
		`{"result":"` + string(bytes.Repeat([]byte("x"), 70000)) + `"}`, `{"error":{"result":1}}`, "}{", `{"result":{}}{"error":{}}`, "\n", " "}
	cases := 0
	for _, a := range parts {
		for _, b := range parts {
			for _, c := range []string{"", "}", `"`} {
				in := a + b + c
				cases++
				out, err := stripJSONWrapper(in)
				if err == nil && len(out) > len(in) {
					rc.Violate("c07.json", "grew", "stripJSONWrapper(%d bytes) returned %d bytes", len(in), len(out))
					return
				}
			}
		}
	}
	rc.Sample("%d envelope strings built from %d fragments", cases, len(parts))
	rc.ProbeN("c07.json-cases", cases)
	rc.Progress()
	rc.Fault("json")
}

func c07Noise(rc *simrt.RunCtx) {
	cfgs := c04Configs()
	cfg := cfgs[rc.Pick(len(cfgs), "knob.cfg")]
	pr := newPrng(rc.Seed())
	installEphemeralGen(pr)
	auth := marker(rc.Seed(), []int{0, 10, 400}[rc.Pick(3, "knob.auth")])
	sp := c04Spec(pr, cfg, auth)
	act := rc.Pick(4, "inj.act") // 0..2: handshake act, 3: first encrypted record
	kind := rc.Pick(6, "inj.kind")
	ca, cb := newDuplex()
	mut := func(seg []byte) [][]byte {
		s := append([]byte(nil), seg...)
		switch kind {
		case 0:
			s = pr.bytes(rc.Pick(300, "inj.len"))
		case 1:
			s = s[:rc.Pick(len(s)+1, "inj.trunc")]
		case 2:
			s = append(s, pr.bytes(1+rc.Pick(100, "inj.ext"))...)
		case 3:
			for k := 0; k < 1+rc.Pick(6, "inj.n"); k++ {
				if len(s) > 0 {
					s[rc.Pick(len(s), "inj.pos")] = byte(rc.Pick(256, "inj.val"))
				}
			}
		case 4:
			s = nil
		case 5: // valid version byte followed by garbage of the right length
			if len(s) > 1 {
				copy(s[1:], pr.bytes(len(s)-1))
			}
		}
		rc.Fault(fmt.Sprintf("garbage-act%d-kind%d", act+1, kind))
		return [][]byte{s}
	}
	ca.out.adv = func(i int, seg []byte) [][]byte {
		if (i == 0 && act == 0) || (i == 1 && act == 2) || (i >= 2 && act == 3) {
			return mut(seg)
		}
		return [][]byte{seg}
	}
	cb.out.adv = func(i int, seg []byte) [][]byte {
		if (i == 0 && act == 1) || (i >= 1 && act == 3) {
			return mut(seg)
		}
		return [][]byte{seg}
	}
	rc.Knob("case", fmt.Sprintf("cfg=%v act=%d kind=%d", cfg, act+1, kind))
	cli, srv := runHandshake(rc, sp, ca, cb)
	waitParties(cli, srv)
	if act == 3 && cli.err == nil && srv.err == nil {
		// garbage in place of encrypted records, both directions
		go func() { cli.net.Write(marker(1, 100)); cli.net.Write(marker(2, 10)) }()
		go func() { srv.net.Write(marker(3, 100)) }()
		ca.SetReadDeadline(time.Now().Add(2 * time.Second))
		cb.SetReadDeadline(time.Now().Add(2 * time.Second))
		buf := make([]byte, 4096)
		for i := 0; i < 3; i++ {
			srv.net.Read(buf)
			cli.net.Read(buf)
		}
	}
	rc.Sample("cfg=%v garbage kind %d in act %d: initiator %s, responder %s", cfg, kind, act+1, describeErr(cli.err), describeErr(srv.err))
	// a panic anywhere would have been caught at the task root and recorded
	rc.Progress()
}
