package mailbox

// C05 - end to end: with a client and a server connected through a mailbox
// relay that may drop or delay relay messages and break and re-establish its
// streams, the byte stream read from the secured connection on one side equals
// the byte stream written on the other, in both directions; when relay faults
// cease the transfer completes or the connection fails visibly; every message
// the relay ever sees is ciphertext.

import (
	"fmt"
	"time"

	"github.com/lightninglabs/lightning-node-connect/gbn"
	"simrt"
)

func init() {
	simrt.Register(&simrt.Scenario{
		Prop: "C05", Name: "relay-faults", Count: tiered(450, 240000),
		Run: func(rc *simrt.RunCtx) { c05Run(rc, true) }, MaxOps: 6 << 20, Horizon: 6 * time.Hour,
		Doc: "real Server.Accept/Client.Dial + ServerConn/ClientConn + GBN + NoiseGrpcConn over the stub relay with drop / delay / stream errors / failing stream creation / full mailbox until a tape-chosen instant; application loops retry as gRPC does; stream equality, ciphertext-only and progress oracles",
	})
	simrt.Register(&simrt.Scenario{
		Prop: "C05", Name: "relay-clean", Count: tiered(150, 48000),
		Run: func(rc *simrt.RunCtx) { c05Run(rc, false) }, MaxOps: 6 << 20, Horizon: 6 * time.Hour,
		Doc: "same stack and workload over a fault-free relay (separate sub-batch)",
	})
}

func c05Run(rc *simrt.RunCtx, faults bool) { c05RunX(rc, faults, false) }

// c05RunX: with inject set the relay also delivers forged messages (C07).
func c05RunX(rc *simrt.RunCtx, faults, inject bool) {
	pr := newPrng(rc.Seed())
	installEphemeralGen(pr)
	healAt := time.Duration(0)
	var rf relayFaults
	if faults {
		healAt = time.Duration(5+rc.Pick(60, "relay.heal")) * time.Second
		rf = swarmRelay(rc, healAt)
		if inject {
			rf.injectPm = []int{20, 60, 150}[rc.Pick(3, "relay.k.inject")]
		} else if rc.Pick(4, "relay.k.garbage") == 0 {
			// until the relay heals, a freshly (re)opened receive stream may
			// deliver an undecodable message first: connections die in their
			// GBN handshake or in the data phase, visibly; after the heal the
			// session must recover like after any other fault
			rf.garbageAny = true
			rf.garbagePm = []int{50, 150, 300}[rc.Pick(3, "relay.k.garbagepm")]
			rc.Knob("relay.garbage", rf.garbagePm)
		}
	} else {
		rf = relayFaults{latMin: time.Millisecond, latMax: time.Duration(2+rc.Pick(30, "relay.latmax")) * time.Millisecond}
	}
	// mailbox capacity: the real relay's mailboxes hold only a few messages
	// and push back on the sender when they are full
	rf.capMsgs = []int{0, 0, 0, 0, 0, 0, 3, 16}[rc.Pick(8, "relay.k.capacity")]
	rc.Knob("relay.capacity", rf.capMsgs)
	// gRPC send streams are asynchronous: Send queues and returns, a
	// cancelled stream context drops what is still queued
	rf.asyncSend = []time.Duration{0, time.Millisecond, 5 * time.Millisecond}[rc.Pick(3, "relay.k.async-send")]
	rc.Knob("relay.async-send", rf.asyncSend)
	rl := newRelay(rc, rf)
	maxV := []byte{2, 2, 1, 0}[rc.Pick(4, "knob.maxversion")]
	authSize := []int{0, 40, 400, 3000}[rc.Pick(4, "knob.auth")]
	if maxV == 0 && authSize > 400 {
		authSize = 400
	}
	maxVC, maxVS := maxV, maxV
	if rc.Pick(5, "knob.mixedversions") == 4 && maxV > 0 {
		// peers of different age: the older one caps the negotiated version
		// (only the server may be the older one: the responder answers with
		// its own maximum version, an older client cannot follow)
		maxVS = maxV - 1
	}
	if maxVS == 0 && authSize > 400 {
		authSize = 400 // a version 0 responder cannot carry more than 498 bytes
	}
	st := newStackV(rc, rl, pr, authSize, maxVC, maxVS)
	big := rc.Pick(8, "wl.big") == 0
	st.planBytes = func(string, int) int {
		if big {
			return 16 + rc.Pick(1<<20, "wl.plan")
		}
		return 16 + rc.Pick(120000, "wl.plan")
	}
	mode := rc.Pick(6, "wl.mode")
	switch mode {
	case 4:
		// many small writes: more than 500 records per direction on one
		// connection, i.e. across the key rotation
		st.planBytes = func(string, int) int { return 16 + 600*40 + rc.Pick(20000, "wl.plan") }
		st.writeSize = func(string) int { return 1 + rc.Pick(60, "wl.w") }
	case 5:
		// idle gaps longer than the ping intervals
		st.writePause = func(string) time.Duration {
			if rc.Pick(12, "wl.pause") == 0 {
				return time.Duration(5500+rc.Pick(9000, "wl.pauselen")) * time.Millisecond
			}
			return 0
		}
	}
	if rc.Pick(4, "wl.small-read-buffers") == 0 {
		// read buffers below the 32 KiB split of NoiseGrpcConn.Read
		st.readSize = func(string) int { return c15ReadSize(rc) }
		// (tiny reads make a run expensive: keep the transfer small)
		inner := st.planBytes
		st.planBytes = func(side string, k int) int {
			if n := inner(side, k); n < 40000 {
				return n
			}
			return 16 + rc.Pick(40000, "wl.plan-small")
		}
	}
	rc.Knob("mode", mode)
	// the client closes a connection once both plans are through; the next
	// Dial/Accept then yields the next connection of the session
	st.afterDone = func(in *instance) bool { return in.side == "client" }
	if rc.Pick(5, "wl.abandon") == 0 {
		// the first connections are given up by the client application in
		// the middle of the transfer (it stops reading and closes)
		upTo := 1 + rc.Pick(3, "wl.abandon-instances")
		// ... or by the server application, or by both (the server side of
		// gRPC keeps one NoiseGrpcConn for all connections it accepts, too)
		abSide := []string{"client", "server", "both"}[rc.Pick(3, "wl.abandon-side")]
		st.abandonAt = func(in *instance) int {
			if (abSide != "both" && in.side != abSide) || in.k >= upTo {
				return 0
			}
			return 1 + rc.Pick(in.plan+40000, "wl.abandon-at")
		}
		rc.Knob("abandon", upTo)
	}
	// think time between connections; a session that has already cycled
	// through many connections slows down (each handshake costs real time)
	think := []time.Duration{0, 0, 50 * time.Millisecond, time.Second, 4 * time.Second}[rc.Pick(5, "wl.think")]
	st.redialPause = func(k int) time.Duration {
		if k >= 24 && think < 3*time.Second {
			return 3 * time.Second
		}
		return think
	}
	rc.Knob("case", fmt.Sprintf("faults=%v heal=%v maxV=%d auth=%d big=%v", faults, healAt, maxV, authSize, big))
	rc.Sample("faults=%v heal=%v maxVersion=%d auth=%dB big=%v", faults, healAt, maxV, authSize, big)
	st.start()

	suffix := 20 * time.Minute
	horizon := healAt + suffix
	lastThird := horizon - suffix/3
	type act struct{ attempts, errs, bytes, insts int }
	activity := func() act {
		var a act
		for _, sd := range []*stackSide{st.S, st.C} {
			sd.mu.Lock()
			a.attempts += sd.attempts
			a.errs += len(sd.errs) + sd.hsFails
			a.insts += len(sd.insts)
			for _, in := range sd.insts {
				a.bytes += in.written + in.read
			}
			sd.mu.Unlock()
		}
		return a
	}
	var atThird *act
	completedAfterHeal := func() bool {
		st.C.mu.Lock()
		defer st.C.mu.Unlock()
		for _, in := range st.C.insts {
			if in.done && in.doneAt >= healAt && in.openedAt >= healAt {
				return true
			}
		}
		return false
	}
	ok := false
	for rc.Now() < horizon && !rc.Failed() {
		time.Sleep(500 * time.Millisecond)
		if rc.Now() >= healAt && completedAfterHeal() {
			ok = true
			break
		}
		if atThird == nil && rc.Now() >= lastThird {
			a := activity()
			atThird = &a
		}
	}
	if !ok && !rc.Failed() && inject {
		// GBN packets are not authenticated: a forged ACK makes the sender
		// forget data the peer never got, and nothing above can notice. With
		// forgeries in play only safety is judged (no crash, no wrong bytes).
		rc.Probe("c07.no-completion-after-forgery")
	} else if !ok && !rc.Failed() {
		end := activity()
		cs, cc := st.S.current(), st.C.current()
		desc := func(sd *stackSide, in *instance) string {
			if in == nil {
				return sd.name + ": no connection yet"
			}
			x := sd.snapshot(in)
			return fmt.Sprintf("%s instance %d (%s): written %d/%d read %d/%d failed=%v closed=%v idle for %v", sd.name, x.k, x.pattern, x.written, x.plan, x.read, x.peerTotal, x.failed, x.closedAt > 0, rc.Now()-x.lastMove)
		}
		st.C.mu.Lock()
		ck := len(st.C.gotKeys)
		st.C.mu.Unlock()
		st.S.mu.Lock()
		sk := len(st.S.gotKeys)
		st.S.mu.Unlock()
		if one, who := st.oneSidedPairing(); one {
			rc.Violate("c05.one-sided-pairing", "keys-stored-on-one-side", "a handshake completed on both sides (data flowed both ways) yet %s; the parties now wait for each other at different rendezvous and no transfer can complete", who)
		} else if (ck > 0) != (sk > 0) {
			// Half-pairing: the three-message handshake completed on one side
			// only (the initiator stores the responder's key as soon as act 3
			// is handed to GBN; the responder gave up waiting for it). The two
			// sides now look for each other at different rendezvous. The
			// connection did fail visibly; what the application sees from
			// then on is the client status.
			status := st.cli.ConnStatus()
			if ck > 0 && status != ClientStatusSessionNotFound && status != ClientStatusNotConnected {
				rc.Violate("c05.half-paired-invisible", "status="+string(status), "client paired, server did not; the client reports status %q while it can never reach the server again", status)
			} else {
				rc.Probe("c05.half-paired-visible-failure")
			}
		} else if ck > 0 && sk > 0 && c05StuckOnOldRendezvous(st, cc) {
			// recorded finding (C11): the server ended the pairing connection
			// and left the old rendezvous; the client's old connection never
			// fails because its send/recv callbacks retry "stream not found"
			// forever
			rc.Violate("c05.silent-stall", "client-stuck-on-old-rendezvous", "both sides paired and the server moved to the key-derived rendezvous, but the client's connection on the passphrase-derived one is still open and idle (%s): it never fails, so nothing re-dials", desc(st.C, cc))
		} else if atThird != nil && *atThird == end && rl.blockedSenders() >= 1 {
			// recorded finding: with bounded mailboxes a GBN receive loop
			// blocks sending an ACK into a mailbox that the peer is not
			// reading (the peer is blocked the same way, or gone); it holds the
			// connection's send mutex, so the send loop - and with it the
			// keepalive - is blocked too
			rc.Violate("c05.silent-stall", "senders-blocked-on-full-mailboxes", "relay reliable since %v (mailbox capacity %d messages); in the last %v nothing happened at all while %d transport send call(s) sit on a full mailbox: a GBN receive loop blocked sending an ACK keeps its connection's send mutex, nobody reads, no keepalive runs, nothing fails. %s; %s", healAt, rf.capMsgs, suffix/3, rl.blockedSenders(), desc(st.S, cs), desc(st.C, cc))
		} else if atThird != nil && *atThird == end {
			rc.Violate("c05.silent-stall", "no-activity", "relay reliable since %v; in the last %v nothing happened at all (no bytes moved, no error surfaced, no new Accept/Dial) and no connection opened after the last fault completed its transfer. %s; %s", healAt, suffix/3, desc(st.S, cs), desc(st.C, cc))
		} else {
			rc.Violate("c05.no-completion", "retries-forever", "relay reliable since %v, yet %v later no connection completed its transfer although the application keeps retrying (attempts %d, surfaced errors %d, connections %d). %s; %s; last client errors %v", healAt, suffix, end.attempts, end.errs, end.insts, desc(st.S, cs), desc(st.C, cc), tail(st.C.errs, 3))
		}
	}
	if ok {
		rc.Probe("c05.transfer-complete-after-heal")
		st.C.mu.Lock()
		if len(st.C.insts) > 1 {
			rc.Probe("c05.reconnected")
		}
		for _, in := range st.C.insts {
			if in.failed != nil {
				rc.Probe("c05.connection-failed-visibly")
				break
			}
		}
		st.C.mu.Unlock()
	}
	st.shutdown()
	if rc.Failed() {
		return
	}
	// ---- every message the relay ever saw is ciphertext -------------------
	rl.mu.Lock()
	seen := rl.seen
	rl.mu.Unlock()
	data := 0
	for i, m := range seen {
		msg, err := gbn.Deserialize(m.msg)
		if err != nil {
			rc.Violate("c05.relay-saw-garbage", "not-a-gbn-packet", "relay message %d (%d bytes) does not decode as a GBN packet: %v", i, len(m.msg), err)
			return
		}
		d, isData := msg.(*gbn.PacketData)
		if !isData || d.IsPing {
			continue
		}
		data++
		payload := d.Payload
		if len(payload) >= 5 {
			payload = payload[5:] // MsgData framing
		}
		if containsWindow(payload, st.auth, 16) {
			rc.Violate("c05.plaintext-at-relay", "auth-payload", "relay message %d carries a 16-byte window of the auth payload", i)
			return
		}
		for k := 0; k+16 <= len(payload); k++ {
			if st.plain[string(payload[k:k+16])] {
				rc.Violate("c05.plaintext-at-relay", "application-bytes", "relay message %d carries 16 bytes of application plaintext at offset %d", i, k)
				return
			}
		}
	}
	rc.ProbeN("c05.relay-data-messages", data)
}

func tail(s []string, n int) []string {
	if len(s) > n {
		return s[len(s)-n:]
	}
	return s
}

// c05StuckOnOldRendezvous: the client's current connection is open, has not
// failed, and uses stream ids that are not the ones the server now listens on.
func c05StuckOnOldRendezvous(st *stack, cc *instance) bool {
	if cc == nil {
		return false
	}
	x := st.C.snapshot(cc)
	if x.failed != nil || x.closedAt != 0 {
		return false
	}
	raw, ok := x.raw.(*ClientConn)
	if !ok {
		return false
	}
	ss, err := st.S.data.SID()
	if err != nil {
		return false
	}
	return raw.sendSID != GetSID(ss, false)
}
