package mailbox

// C08 - cipher stream: every record uses a fresh key/nonce pair, both ends
// rotate keys at the same record count (streams of any length keep decrypting
// with the two directions interleaved arbitrarily), and no record on the wire
// contains application plaintext or the auth payload.

import (
	"fmt"
	"time"

	"simrt"
)

func init() {
	simrt.Register(&simrt.Scenario{
		Prop: "C08", Name: "long-streams", Count: tiered(1200, 160000),
		Run: c08Run, MaxOps: 8 << 20, Horizon: time.Hour,
		Doc: "two real Machines after an XX or KK handshake; 0..5000 records per direction (up to 10 key rotations), directions interleaved by the tape, sizes incl. 0 and 65535, equal and distinct plaintexts; white-box (key, nonce) freshness, ciphertext distinctness, exact decryption, no plaintext / auth payload on the recorded wire",
	})
}

type knKey struct {
	key   [32]byte
	nonce uint64
}

func c08Run(rc *simrt.RunCtx) {
	kk := rc.Pick(2, "knob.kk") == 1
	s := establish(rc, kk, 200)
	if s == nil {
		return
	}
	maxRec := []int{30, 520, 1100, 5000}[rc.Pick(4, "knob.len")]
	nA, nB := rc.Pick(maxRec+1, "wl.recsA"), rc.Pick(maxRec+1, "wl.recsB")
	if rc.Pick(6, "wl.oneempty") == 0 {
		nB = 0
	}
	samePlain := rc.Pick(3, "wl.same") == 0 // equal plaintexts throughout
	bigEvery := 0
	if rc.Pick(3, "wl.big") == 0 {
		bigEvery = 97 + rc.Pick(400, "wl.bigevery")
	}
	rc.Knob("case", fmt.Sprintf("kk=%v recs=%d/%d same=%v big=%d", kk, nA, nB, samePlain, bigEvery))
	rc.Sample("kk=%v records A->B=%d B->A=%d equal-plaintexts=%v big-every=%d", kk, nA, nB, samePlain, bigEvery)
	type dir struct {
		name          string
		w, r          *Machine
		wc, rc        *simConn
		total         int
		written       int
		read          int
		sent          [][]byte
		seenKN        map[knKey]int
		seenCT        map[string]int
		firstSg       int
		pending       []byte
		pendingBefore knKey
		hasPending    bool
	}
	// (key, nonce) pairs and ciphertexts are remembered across both
	// directions: the two directions must not share a key stream either
	allKN, allCT := map[knKey]int{}, map[string]int{}
	dA := &dir{name: "initiator->responder", w: s.cli.conn.noise, r: s.srv.conn.noise, wc: s.ca, rc: s.cb, total: nA, seenKN: allKN, seenCT: allCT}
	dB := &dir{name: "responder->initiator", w: s.srv.conn.noise, r: s.cli.conn.noise, wc: s.cb, rc: s.ca, total: nB, seenKN: allKN, seenCT: allCT}
	dA.firstSg, dB.firstSg = s.ca.out.segCount(), s.cb.out.segCount()
	fixedPlain := marker(99, 48)
	plain := func(d *dir, i int) []byte {
		size := 48
		if bigEvery > 0 && i%bigEvery == bigEvery-1 {
			size = 65535
		} else if !samePlain {
			switch i % 7 {
			case 0:
				size = 0
			case 1:
				size = 1
			default:
				size = 16 + (i*31)%200
			}
		}
		if samePlain && size == 48 {
			return fixedPlain
		}
		tag := uint64(i)*2 + 1
		if d == dB {
			tag++
		}
		return marker(tag+1000, size)
	}
	rotations := 0
	split := rc.Pick(2, "wl.split-write-flush") == 1
	var finish func(d *dir, p []byte, before knKey) bool
	finish = func(d *dir, p []byte, before knKey) bool {
		after := knKey{d.w.sendCipher.secretKey, d.w.sendCipher.nonce}
		if after == before {
			rc.Violate("c08.nonce-reuse", "state-not-advanced", "%s: cipher state (key, nonce=%d) unchanged by record %d", d.name, before.nonce, d.written)
			return false
		}
		if after.key != before.key {
			rotations++
		}
		ct := recordBytes(d.wc.out, d.firstSg, d.written)
		// nothing the application said may be visible in the record
		if len(p) >= 16 && (len(p) < 4096 || d.written%3 == 0) && containsWindow(ct, p, 16) {
			rc.Violate("c08.plaintext-on-wire", "application-plaintext", "%s: a 16-byte window of plaintext record %d appears in its wire record", d.name, d.written)
			return false
		}
		if containsWindow(ct, s.auth, 16) {
			rc.Violate("c08.plaintext-on-wire", "auth-payload", "%s: a 16-byte window of the auth payload appears in wire record %d", d.name, d.written)
			return false
		}
		if j, dup := d.seenCT[string(ct)]; dup {
			rc.Violate("c08.ciphertext-repeat", "equal-ciphertext", "%s: its record %d has the same ciphertext (%d bytes) as record %d written earlier in this or the other direction", d.name, d.written, len(ct), j)
			return false
		}
		if len(ct) < 200 || d.written%50 == 0 {
			d.seenCT[string(ct)] = d.written
		}
		d.sent = append(d.sent, p)
		d.written++
		return true
	}
	flush := func(d *dir) bool {
		p, before := d.pending, d.pendingBefore
		d.pending = nil
		if _, err := d.w.Flush(d.wc); err != nil {
			rc.Violate("c08.write", "flush-error", "%s: Flush #%d: %v", d.name, d.written, err)
			return false
		}
		return finish(d, p, before)
	}
	step := func(d *dir, write bool) bool {
		if write {
			p := plain(d, d.written)
			before := knKey{d.w.sendCipher.secretKey, d.w.sendCipher.nonce}
			if j, dup := d.seenKN[before]; dup {
				rc.Violate("c08.nonce-reuse", "key-nonce-repeated", "%s: record %d is encrypted starting from the same (key, nonce=%d) pair as record %d of this or the other direction", d.name, d.written, before.nonce, j)
				return false
			}
			d.seenKN[before] = d.written
			if err := d.w.WriteMessage(p); err != nil {
				rc.Violate("c08.write", "write-error", "%s: WriteMessage #%d (%d bytes): %v", d.name, d.written, len(p), err)
				return false
			}
			if split {
				// the record is flushed by a later move; reads on this
				// Machine may happen in between
				d.pending = p
				d.pendingBefore = before
				return true
			}
			if _, err := d.w.Flush(d.wc); err != nil {
				rc.Violate("c08.write", "flush-error", "%s: Flush #%d: %v", d.name, d.written, err)
				return false
			}
			return finish(d, p, before)
		}
		got, err := d.r.ReadMessage(d.rc)
		if err != nil {
			rc.Violate("c08.decrypt", "read-error", "%s: record %d (of %d written) does not decrypt: %v - the two ends are out of step (sender nonce %d, receiver nonce %d)", d.name, d.read, d.written, err, d.w.sendCipher.nonce, d.r.recvCipher.nonce)
			return false
		}
		if !eqBytes(got, d.sent[d.read]) {
			rc.Violate("c08.decrypt", "plaintext-differs", "%s: record %d decrypts to %d bytes that differ from the %d bytes written", d.name, d.read, len(got), len(d.sent[d.read]))
			return false
		}
		d.read++
		return true
	}
	for (dA.read < dA.total || dB.read < dB.total) && !rc.Failed() {
		// tape-chosen interleaving of the four possible moves
		var moves []func() bool
		for _, d := range []*dir{dA, dB} {
			d := d
			if d.pending != nil || d.hasPending {
				moves = append(moves, func() bool { d.hasPending = false; return flush(d) })
			} else if d.written < d.total && d.written-d.read < 64 {
				moves = append(moves, func() bool {
					ok := step(d, true)
					d.hasPending = ok && split
					return ok
				})
			}
			if d.read < d.written {
				moves = append(moves, func() bool { return step(d, false) })
			}
		}
		if !moves[rc.Pick(len(moves), "wl.move")]() {
			break
		}
	}
	if rc.Failed() {
		return
	}
	// the auth payload must not be visible in the handshake bytes either
	for _, h := range []*half{s.ca.out, s.cb.out} {
		h.mu.Lock()
		hs := h.wire
		if len(hs) > 4096 {
			hs = hs[:4096]
		}
		leak := containsWindow(hs, s.auth, 16)
		h.mu.Unlock()
		if leak {
			rc.Violate("c08.plaintext-on-wire", "auth-payload", "a 16-byte window of the auth payload appears on the wire")
			return
		}
	}
	rc.ProbeN("c08.records", dA.read+dB.read)
	rc.ProbeN("c08.key-rotations", rotations)
	if rotations >= 4 {
		rc.Probe("c08.many-rotations")
	}
	rc.Progress()
	rc.Fault("long-stream")
}
