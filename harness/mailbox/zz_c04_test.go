package mailbox

// C04 - whenever both parties complete a handshake they hold complementary
// traffic keys, the same negotiated version, each other's true static key and
// the initiator holds exactly the responder's auth payload - also when an
// active man in the middle rewrites any bytes of the handshake messages,
// including the clear-text version bytes.

import (
	"context"
	"fmt"
	"reflect"
	"time"

	"github.com/btcsuite/btcd/btcec/v2"
	"simrt"
)

type c04Cfg struct {
	cMin, cMax, sMin, sMax byte
	kk                     bool
}

// every (min,max) pair per side that a constructor accepts
func c04Configs() []c04Cfg {
	var out []c04Cfg
	for _, kk := range []bool{false, true} {
		for cMin := byte(0); cMin <= 2; cMin++ {
			for cMax := cMin; cMax <= 2; cMax++ {
				for sMin := byte(0); sMin <= 2; sMin++ {
					for sMax := sMin; sMax <= 2; sMax++ {
						if kk && (cMax < 2 || sMax < 2) {
							continue // NewBrontideMachine refuses KK below version 2
						}
						out = append(out, c04Cfg{cMin, cMax, sMin, sMax, kk})
					}
				}
			}
		}
	}
	return out
}

var c04Sizes = []int{0, 1, 497, 498, 499, 500, 65535, 1 << 20, 4 << 20}

// c04FlipSpan is an upper bound of the total handshake length in bytes (v0:
// 50 + 599 + 66).
const c04FlipSpan = 720

// configurations whose handshake acts are bit-flipped exhaustively
var c04FlipCfgs = []c04Cfg{{0, 2, 0, 2, false}, {2, 2, 2, 2, true}, {0, 0, 0, 0, false}, {0, 1, 0, 1, false}}

func init() {
	simrt.Register(&simrt.Scenario{
		Prop: "C04", Name: "configs-untampered", Enumerated: true, Count: fixed(len(c04Configs()) * len(c04Sizes)),
		Run: c04Untampered, MaxOps: 1 << 20, Horizon: time.Hour,
		Doc: "every constructible (clientMin,clientMax,serverMin,serverMax) x {XX,KK} x auth payload size {0,1,497,498,499,500,65535,1 MiB,4 MiB}, no tampering",
	})
	simrt.Register(&simrt.Scenario{
		Prop: "C04", Name: "version-bytes", Enumerated: true, Count: fixed(len(c04Configs()) * 64),
		Run: c04VersionBytes, MaxOps: 1 << 20, Horizon: time.Hour,
		Doc: "for every configuration, every substitution of the clear-text version byte of each act by 0..3, all 64 combinations across the three acts (16 for KK)",
	})
	simrt.Register(&simrt.Scenario{
		Prop: "C04", Name: "bit-flips", Enumerated: true, Count: func(tier string) int {
			if tier == "thorough" {
				return len(c04FlipCfgs) * c04FlipSpan * 8
			}
			return 2 * c04FlipSpan * 8
		},
		Run: c04BitFlips, MaxOps: 1 << 20, Horizon: time.Hour,
		Doc: "every single-bit flip of every byte of every handshake act (small auth payload), for v2 XX and KK (thorough: also v0 and v1 XX)",
	})
	simrt.Register(&simrt.Scenario{
		Prop: "C04", Name: "callbacks-refuse", Enumerated: true, Count: fixed(len(c04Configs()) * 3),
		Run: c04Refuse, MaxOps: 1 << 20, Horizon: time.Hour,
		Doc: "for every configuration: the initiator's onRemoteStatic, the initiator's onAuthData or the responder's onRemoteStatic callback returns an error (the application cannot persist the key / rejects the payload); a party whose callback refused must not report a completed handshake, and if both complete the agreement oracle applies",
	})
	simrt.Register(&simrt.Scenario{
		Prop: "C04", Name: "repeat-handshakes", Count: tiered(400, 160000),
		Run: c04Repeat, MaxOps: 1 << 20, Horizon: time.Hour,
		Doc: "2-5 consecutive handshakes on the same long-lived ConnData objects (as a session does): XX first, KK afterwards when version 2 paired them; the responder's auth payload changes between handshakes (non-empty, empty, nil, other sizes); after each one the agreement oracle, and the initiator's stored auth data and onAuthData callback must reflect this handshake's payload",
	})
	simrt.Register(&simrt.Scenario{
		Prop: "C04", Name: "rewrites-random", Count: tiered(3000, 320000),
		Run: c04Random, MaxOps: 1 << 20, Horizon: time.Hour,
		Doc: "random multi-byte rewrites, act replays / swaps / truncations / extensions by the man in the middle, random configuration and payload size",
	})
}

func c04Spec(pr *prng, cfg c04Cfg, auth []byte) hsSpec {
	ck, sk := pr.ecdh(), pr.ecdh()
	pass := pr.bytes(14)
	sp := hsSpec{cliPass: pass, srvPass: pass, cliKey: ck, srvKey: sk, auth: auth, cMin: cfg.cMin, cMax: cfg.cMax, sMin: cfg.sMin, sMax: cfg.sMax}
	if cfg.kk {
		sp.cliRemote, sp.srvRemote = sk.PubKey(), ck.PubKey()
	}
	return sp
}

// c04Agree checks the agreement oracle once both parties completed.
func c04Agree(rc *simrt.RunCtx, what, tamper string, sp hsSpec, cli, srv *party) {
	// a party whose application refused the key or the payload has not
	// accepted the handshake's result: it must not report completion
	for _, p := range []struct {
		name string
		p    *party
	}{{"initiator", cli}, {"responder", srv}} {
		if p.p.err == nil && len(p.p.refused) > 0 {
			rc.Violate("c04.agree", tamper+"/completed-although-callback-refused/"+p.name, "%s: the %s reports a completed handshake although its %s callback returned an error (remote key stored: %v, auth data stored: %d bytes)", what, p.name, p.p.refused[0], p.p.data.RemoteKey() != nil, len(p.p.data.AuthData()))
			return
		}
	}
	if cli.err != nil || srv.err != nil {
		switch {
		case cli.err != nil && srv.err != nil:
			rc.Probe("c04.both-fail")
		default:
			rc.Probe("c04.one-completes")
		}
		return
	}
	rc.Probe("c04.both-complete")
	cm, sm := cli.conn.noise, srv.conn.noise
	pat := "XX"
	if sp.cliRemote != nil {
		pat = "KK"
	}
	bad := func(field, f string, a ...any) {
		rc.Violate("c04.agree", tamper+"/"+field+"/"+pat, "%s: both parties completed the handshake but %s", what, fmt.Sprintf(f, a...))
	}
	switch {
	case cm.sendCipher.secretKey != sm.recvCipher.secretKey || cm.recvCipher.secretKey != sm.sendCipher.secretKey:
		bad("keys", "their traffic keys are not complementary")
	case !reflect.DeepEqual(cm.sendCipher.salt, sm.recvCipher.salt) || !reflect.DeepEqual(cm.recvCipher.salt, sm.sendCipher.salt):
		bad("keys", "the rotation salts of their traffic keys are not complementary (the streams part at the first key rotation)")
	case cm.sendCipher.nonce != sm.recvCipher.nonce || cm.recvCipher.nonce != sm.sendCipher.nonce:
		bad("keys", "their record counters differ right after the handshake")
	case cm.version != sm.version:
		bad("version", "the initiator negotiated version %d and the responder version %d (remote key published: initiator %v, responder %v)", cm.version, sm.version, len(cli.gotKeys) > 0, len(srv.gotKeys) > 0)
	case cm.remoteStatic == nil || !cm.remoteStatic.IsEqual(sp.srvKey.PubKey()):
		bad("remote-static", "the initiator does not hold the responder's true static key")
	case sm.remoteStatic == nil || !sm.remoteStatic.IsEqual(sp.cliKey.PubKey()):
		bad("remote-static", "the responder does not hold the initiator's true static key")
	case !eqBytes(cli.data.AuthData(), sp.auth):
		got := cli.data.AuthData()
		bad("auth-payload", "the initiator holds %d auth bytes that differ from the %d bytes the responder sent (first difference at %d)", len(got), len(sp.auth), firstDiff(got, sp.auth))
	case !eqBytes(srv.data.AuthData(), sp.auth):
		got := srv.data.AuthData()
		bad("auth-payload-responder", "the handshake changed the responder's own auth payload (%d bytes, first difference at %d): what it holds - and will send next time - is no longer what the initiator holds", len(got), firstDiff(got, sp.auth))
	case (len(cli.gotKeys) > 0) != (len(srv.gotKeys) > 0):
		bad("publication", "the remote static key was published on one side only (initiator %v, responder %v)", len(cli.gotKeys) > 0, len(srv.gotKeys) > 0)
	case (cm.version >= 2) != (len(cli.gotKeys) > 0):
		bad("publication", "version %d but remote key published=%v", cm.version, len(cli.gotKeys) > 0)
	}
}

func firstDiff(a, b []byte) int {
	for i := 0; i < len(a) && i < len(b); i++ {
		if a[i] != b[i] {
			return i
		}
	}
	if len(a) < len(b) {
		return len(a)
	}
	return len(b)
}

func c04Untampered(rc *simrt.RunCtx) {
	cfgs := c04Configs()
	cfg := cfgs[rc.Idx()%len(cfgs)]
	size := c04Sizes[(rc.Idx()/len(cfgs))%len(c04Sizes)]
	pr := newPrng(rc.Seed())
	installEphemeralGen(pr)
	auth := marker(rc.Seed(), size)
	sp := c04Spec(pr, cfg, auth)
	ca, cb := newDuplex()
	cli, srv := runHandshake(rc, sp, ca, cb)
	waitParties(cli, srv)
	what := fmt.Sprintf("untampered kk=%v versions c[%d,%d] s[%d,%d] auth=%dB", cfg.kk, cfg.cMin, cfg.cMax, cfg.sMin, cfg.sMax, size)
	rc.Sample("%s: initiator %s, responder %s", what, describeErr(cli.err), describeErr(srv.err))
	c04Agree(rc, what, "none", sp, cli, srv)
	rc.Progress()
	rc.Fault(fmt.Sprintf("cfg-%d-size-%d", rc.Idx()%len(cfgs), size))
}

func c04VersionBytes(rc *simrt.RunCtx) {
	cfgs := c04Configs()
	cfg := cfgs[(rc.Idx()/64)%len(cfgs)]
	combo := rc.Idx() % 64
	v1, v2, v3 := byte(combo%4), byte((combo/4)%4), byte((combo/16)%4)
	if cfg.kk && v3 != 0 {
		// KK has two acts: the third digit has no meaning
		rc.Progress()
		rc.Fault("kk-skip")
		rc.Sample("kk: no third act")
		return
	}
	pr := newPrng(rc.Seed())
	installEphemeralGen(pr)
	auth := marker(rc.Seed(), 40)
	sp := c04Spec(pr, cfg, auth)
	ca, cb := newDuplex()
	// initiator -> responder: segment 0 is act 1, segment 1 is act 3
	modified := ""
	mark := func(act string, s []byte, v byte) {
		if s[0] != v {
			modified += act
		}
		s[0] = v
	}
	ca.out.adv = func(i int, seg []byte) [][]byte {
		s := append([]byte(nil), seg...)
		if len(s) > 0 {
			if i == 0 {
				mark("1", s, v1)
			} else if i == 1 {
				mark("3", s, v3)
			}
		}
		return [][]byte{s}
	}
	cb.out.adv = func(i int, seg []byte) [][]byte {
		s := append([]byte(nil), seg...)
		if i == 0 && len(s) > 0 {
			mark("2", s, v2)
		}
		return [][]byte{s}
	}
	cli, srv := runHandshake(rc, sp, ca, cb)
	waitParties(cli, srv)
	what := fmt.Sprintf("version bytes rewritten to act1=%d act2=%d act3=%d, kk=%v versions c[%d,%d] s[%d,%d]", v1, v2, v3, cfg.kk, cfg.cMin, cfg.cMax, cfg.sMin, cfg.sMax)
	rc.Sample("%s: initiator %s, responder %s", what, describeErr(cli.err), describeErr(srv.err))
	// which acts the man in the middle really changed (acts are numbered in
	// the order 1, 3 on the initiator's direction and 2 on the responder's)
	acts := ""
	for _, a := range []string{"1", "2", "3"} {
		for _, c := range modified {
			if string(c) == a {
				acts += a
			}
		}
	}
	c04Agree(rc, what+" (really changed: acts "+acts+")", "version-bytes[acts "+acts+"]", sp, cli, srv)
	rc.Progress()
	rc.Fault(fmt.Sprintf("vb-%d-%d", (rc.Idx()/64)%len(cfgs), combo))
}

func c04BitFlips(rc *simrt.RunCtx) {
	// idx -> (config, absolute bit position over act1 | act2 | act3)
	per := c04FlipSpan * 8
	cfg := c04FlipCfgs[(rc.Idx()/per)%len(c04FlipCfgs)]
	pos := rc.Idx() % per
	byteAt, bit := pos/8, pos%8
	pr := newPrng(uint64(rc.Idx()/per) + 99) // same keys for all flips of a configuration
	installEphemeralGen(pr)
	auth := marker(7, 5)
	sp := c04Spec(pr, cfg, auth)
	ca, cb := newDuplex()
	// order on the wire: act1 (i->r), act2 (r->i), act3 (i->r); lengths are
	// learnt as the acts pass by
	var l1, l2 int
	hit := false
	flip := func(seg []byte, base int) []byte {
		s := append([]byte(nil), seg...)
		if byteAt >= base && byteAt < base+len(s) {
			s[byteAt-base] ^= 1 << bit
			hit = true
		}
		return s
	}
	ca.out.adv = func(i int, seg []byte) [][]byte {
		if i == 0 {
			l1 = len(seg)
			return [][]byte{flip(seg, 0)}
		}
		return [][]byte{flip(seg, l1+l2)}
	}
	cb.out.adv = func(i int, seg []byte) [][]byte {
		if i == 0 {
			l2 = len(seg)
			return [][]byte{flip(seg, l1)}
		}
		return [][]byte{seg}
	}
	cli, srv := runHandshake(rc, sp, ca, cb)
	waitParties(cli, srv)
	what := fmt.Sprintf("bit %d of handshake byte %d flipped, kk=%v versions c[%d,%d] s[%d,%d]", bit, byteAt, cfg.kk, cfg.cMin, cfg.cMax, cfg.sMin, cfg.sMax)
	rc.Sample("%s: initiator %s, responder %s", what, describeErr(cli.err), describeErr(srv.err))
	if !hit {
		rc.Probe("c04.flip-beyond-handshake")
	} else {
		rc.Probe("c04.flip-applied")
	}
	c04Agree(rc, what, "bit-flip", sp, cli, srv)
	rc.Progress()
	rc.Fault(fmt.Sprintf("flip-%d", rc.Idx()))
}

func c04Random(rc *simrt.RunCtx) {
	cfgs := c04Configs()
	cfg := cfgs[rc.Pick(len(cfgs), "knob.cfg")]
	size := c04Sizes[rc.Pick(6, "knob.size")]
	pr := newPrng(rc.Seed())
	installEphemeralGen(pr)
	auth := marker(rc.Seed(), size)
	sp := c04Spec(pr, cfg, auth)
	ca, cb := newDuplex()
	kind := rc.Pick(5, "mitm.kind")
	target := rc.Pick(3, "mitm.act") // 0: act1, 1: act2, 2: act3
	nEdits := 1 + rc.Pick(4, "mitm.n")
	var saved [][]byte
	edit := func(seg []byte) [][]byte {
		s := append([]byte(nil), seg...)
		switch kind {
		case 0: // multi-byte rewrite
			for k := 0; k < nEdits && len(s) > 0; k++ {
				s[rc.Pick(len(s), "mitm.pos")] = byte(rc.Pick(256, "mitm.val"))
			}
		case 1: // truncate
			s = s[:rc.Pick(len(s)+1, "mitm.trunc")]
		case 2: // extend
			s = append(s, pr.bytes(1+rc.Pick(40, "mitm.ext"))...)
		case 3: // duplicate the act
			return [][]byte{s, s}
		case 4: // replace by an earlier act seen on either direction
			if len(saved) > 0 {
				s = append([]byte(nil), saved[rc.Pick(len(saved), "mitm.replay")]...)
			}
		}
		rc.Fault(fmt.Sprintf("mitm-%d", kind))
		return [][]byte{s}
	}
	ca.out.adv = func(i int, seg []byte) [][]byte {
		defer func() { saved = append(saved, seg) }()
		if (i == 0 && target == 0) || (i == 1 && target == 2) {
			return edit(seg)
		}
		return [][]byte{seg}
	}
	cb.out.adv = func(i int, seg []byte) [][]byte {
		defer func() { saved = append(saved, seg) }()
		if i == 0 && target == 1 {
			return edit(seg)
		}
		return [][]byte{seg}
	}
	rc.Knob("case", fmt.Sprintf("cfg=%v size=%d kind=%d act=%d", cfg, size, kind, target+1))
	cli, srv := runHandshake(rc, sp, ca, cb)
	waitParties(cli, srv)
	what := fmt.Sprintf("MITM edit kind %d on act %d, kk=%v versions c[%d,%d] s[%d,%d] auth=%dB", kind, target+1, cfg.kk, cfg.cMin, cfg.cMax, cfg.sMin, cfg.sMax, size)
	rc.Sample("%s: initiator %s, responder %s", what, describeErr(cli.err), describeErr(srv.err))
	c04Agree(rc, what, "rewrite", sp, cli, srv)
	rc.Progress()
}

func c04Repeat(rc *simrt.RunCtx) {
	pr := newPrng(rc.Seed())
	installEphemeralGen(pr)
	maxV := []byte{2, 2, 1, 0}[rc.Pick(4, "knob.maxv")]
	ck, sk := pr.ecdh(), pr.ecdh()
	pass := pr.bytes(14)
	var cliAuth [][]byte
	var cliKeys, srvKeys int
	cdata := NewConnData(ck, nil, pass, nil, func(*btcec.PublicKey) error { cliKeys++; return nil },
		func(d []byte) error { cliAuth = append(cliAuth, append([]byte(nil), d...)); return nil })
	sdata := NewConnData(sk, nil, pass, nil, func(*btcec.PublicKey) error { srvKeys++; return nil }, nil)
	ccreds := NewNoiseGrpcConn(cdata, WithMaxHandshakeVersion(maxV))
	screds := NewNoiseGrpcConn(sdata, WithMaxHandshakeVersion(maxV))
	rounds := 2 + rc.Pick(4, "wl.rounds")
	var hist []string
	var prevAuth []byte
	for i := 0; i < rounds && !rc.Failed(); i++ {
		var auth []byte
		switch rc.Pick(5, "wl.auth") {
		case 0:
			auth = nil
		case 1:
			auth = []byte{}
		case 2:
			auth = marker(uint64(i)+rc.Seed(), 1+rc.Pick(40, "wl.authlen"))
		default:
			auth = marker(uint64(i)+rc.Seed(), 50+rc.Pick(400, "wl.authlen"))
		}
		// the server side sets what it will send this time (a slice of its
		// own, with or without spare capacity) - or, one time in three,
		// keeps what it holds from the previous handshake
		if i > 0 && rc.Pick(3, "wl.auth-keep") == 0 {
			auth = prevAuth
		} else {
			var own []byte
			if auth != nil {
				own = append(make([]byte, 0, len(auth)+[]int{0, 16, 64}[rc.Pick(3, "wl.auth-spare-capacity")]), auth...)
			}
			sdata.mu.Lock()
			sdata.authData = own
			sdata.mu.Unlock()
		}
		prevAuth = auth
		pattern := cdata.HandshakePattern().Name
		hist = append(hist, fmt.Sprintf("%s/%d", pattern, len(auth)))
		ca, cb := newDuplex()
		before := len(cliAuth)
		type res struct{ err error }
		cd, sd := make(chan res, 1), make(chan res, 1)
		go func() { _, _, err := ccreds.ClientHandshake(context.Background(), "", ca); cd <- res{err} }()
		go func() { _, _, err := screds.ServerHandshake(cb); sd <- res{err} }()
		cr, sr := <-cd, <-sd
		if cr.err != nil || sr.err != nil {
			rc.Violate("c04.repeat", "honest-handshake-failed", "handshake %d (%s) between the same two honest parties failed: initiator %v, responder %v; history %v", i, pattern, cr.err, sr.err, hist)
			return
		}
		cm, sm := ccreds.noise, screds.noise
		what := fmt.Sprintf("handshake %d of a session (history %v)", i, hist)
		switch {
		case cm.sendCipher.secretKey != sm.recvCipher.secretKey || cm.recvCipher.secretKey != sm.sendCipher.secretKey:
			rc.Violate("c04.agree", "repeat/keys", "%s: traffic keys are not complementary", what)
		case cm.version != sm.version:
			rc.Violate("c04.agree", "repeat/version", "%s: versions %d / %d", what, cm.version, sm.version)
		case !eqBytes(cdata.AuthData(), auth):
			rc.Violate("c04.agree", "repeat/auth-payload", "%s: the responder sent %d auth bytes this time, the initiator's ConnData holds %d bytes (first difference at %d)", what, len(auth), len(cdata.AuthData()), firstDiff(cdata.AuthData(), auth))
		case len(cliAuth) != before+1 || !eqBytes(cliAuth[len(cliAuth)-1], auth):
			rc.Violate("c04.agree", "repeat/auth-callback", "%s: onAuthData was called %d time(s) for this handshake and its last argument has %d bytes, the responder sent %d", what, len(cliAuth)-before, len(lastBytes(cliAuth)), len(auth))
		case (cliKeys > 0) != (srvKeys > 0):
			rc.Violate("c04.agree", "repeat/publication", "%s: remote key published on one side only (%d / %d)", what, cliKeys, srvKeys)
		}
	}
	rc.Sample("maxVersion=%d session of %d handshakes: %v", maxV, rounds, hist)
	rc.Knob("case", fmt.Sprint(maxV, hist))
	rc.Progress()
	rc.Fault("repeat-handshakes")
}

func lastBytes(b [][]byte) []byte {
	if len(b) == 0 {
		return nil
	}
	return b[len(b)-1]
}

func c04Refuse(rc *simrt.RunCtx) {
	cfgs := c04Configs()
	cfg := cfgs[rc.Idx()%len(cfgs)]
	which := (rc.Idx() / len(cfgs)) % 3
	pr := newPrng(rc.Seed())
	installEphemeralGen(pr)
	sp := c04Spec(pr, cfg, marker(rc.Seed(), 40))
	name := []string{"initiator-onRemoteStatic", "initiator-onAuthData", "responder-onRemoteStatic"}[which]
	switch which {
	case 0:
		sp.cliRefuseKey = true
	case 1:
		sp.cliRefuseAuth = true
	case 2:
		sp.srvRefuseKey = true
	}
	ca, cb := newDuplex()
	cli, srv := runHandshake(rc, sp, ca, cb)
	waitParties(cli, srv)
	what := fmt.Sprintf("%s refuses, kk=%v versions c[%d,%d] s[%d,%d]", name, cfg.kk, cfg.cMin, cfg.cMax, cfg.sMin, cfg.sMax)
	rc.Sample("%s: initiator %s, responder %s", what, describeErr(cli.err), describeErr(srv.err))
	c04Agree(rc, what, "callback-refuses", sp, cli, srv)
	if len(cli.refused)+len(srv.refused) > 0 {
		rc.Probe("c04.callback-refused")
	}
	rc.Progress()
	rc.Fault("refuse-" + name)
}
