package mailbox

// C15 - secured connections honour the net.Conn stream contract for any
// buffer size: each Read reports no more bytes than the buffer holds, the
// concatenation of all bytes read equals the concatenation of all bytes
// written, and a write larger than one record is either chunked
// transparently or rejected with an error, never silently truncated.

import (
	"context"
	"fmt"
	"io"
	"net"
	"time"

	"simrt"
)

func init() {
	simrt.Register(&simrt.Scenario{
		Prop: "C15", Name: "noise-conns", Count: tiered(8000, 800000),
		Run: c15Noise, MaxOps: 4 << 20, Horizon: time.Hour,
		Doc: "NoiseGrpcConn over a ProxyConn stub and NoiseConn over a fragmenting stream; writer and reader are separate tasks; write sizes 0..65535 (gRPC variant) / up to 300 KiB (TCP variant); read-buffer sizes 1 B .. 100 KiB incl. sequences that shrink mid-record and straddle the 32 KiB split",
	})
	simrt.Register(&simrt.Scenario{
		Prop: "C15", Name: "connkit-plain", Count: tiered(400, 240000),
		Run: c15ConnKit, MaxOps: 4 << 20, Horizon: 2 * time.Hour,
		Doc: "the plain mailbox connections (ClientConn / ServerConn, i.e. connKit over real GBN over the stub relay, no Noise on top): writes of 0..100 kB in both directions incl. empty writes between non-empty ones, read buffers of 1 B .. 100 KiB",
	})
	simrt.Register(&simrt.Scenario{
		Prop: "C15", Name: "oversize-write", Enumerated: true, Count: fixed(8),
		Run: c15Oversize, MaxOps: 4 << 20, Horizon: time.Hour,
		Doc: "writes of 65535, 65536, 65537 and 200000 bytes on both variants: chunked transparently or rejected with an error, and the stream stays usable or fails - never a short silent write",
	})
}

// readSizes draws a read-buffer size; the distribution covers 1 byte, sizes
// just around the 32 KiB split, and sizes above a record.
func c15ReadSize(rc *simrt.RunCtx) int {
	switch rc.Pick(8, "rd.kind") {
	case 0:
		return 1
	case 1:
		return 1 + rc.Pick(16, "rd.small")
	case 2:
		return 1 + rc.Pick(1024, "rd.med")
	case 3:
		return 32*1024 - 2 + rc.Pick(5, "rd.split")
	case 4:
		return 1 + rc.Pick(70000, "rd.any")
	case 5:
		return 100 * 1024
	case 6:
		return 5
	}
	return 4096
}

func c15Noise(rc *simrt.RunCtx) {
	kk := rc.Pick(2, "knob.kk") == 1
	tcp := rc.Pick(2, "knob.tcp") == 1
	s := establish(rc, kk, 32)
	if s == nil {
		return
	}
	var w, r net.Conn
	variant := "NoiseGrpcConn"
	if tcp {
		variant = "NoiseConn"
		w = &NoiseConn{conn: s.ca, noise: s.cli.conn.noise}
		r = &NoiseConn{conn: s.cb, noise: s.srv.conn.noise}
		if rc.Pick(2, "knob.frag") == 1 {
			g := 1 + rc.Pick(2000, "frag.g")
			s.cb.in.frag = func() int { return g }
		}
	} else {
		w, r = s.cli.net, s.srv.net
	}
	bidir := rc.Pick(3, "knob.bidir") == 2
	rc.Knob("case", fmt.Sprintf("kk=%v variant=%s bidir=%v", kk, variant, bidir))
	mkWrites := func(label string, tag uint64) [][]byte {
		n := 1 + rc.Pick(10, label+".n")
		var out [][]byte
		budget := 600 * 1024
		for i := 0; i < n; i++ {
			var size int
			switch rc.Pick(7, label+".kind") {
			case 0:
				size = 0
			case 1:
				size = 1
			case 2:
				size = rc.Pick(100, label+".s")
			case 3:
				size = 32*1024 - 1 + rc.Pick(3, label+".split")
			case 4:
				size = 65535
			case 5:
				size = rc.Pick(65536, label+".any")
			case 6:
				if tcp {
					size = 65536 + rc.Pick(240000, label+".big")
				} else {
					size = rc.Pick(2000, label+".s2")
				}
			}
			if size > budget {
				size = budget
			}
			budget -= size
			out = append(out, marker(tag*1000+uint64(i), size))
		}
		return out
	}
	run := func(name string, w, r net.Conn, writes [][]byte, rdLabel string) chan bool {
		done := make(chan bool, 1)
		var want []byte
		for _, p := range writes {
			want = append(want, p...)
		}
		go func() {
			for i, p := range writes {
				n, err := w.Write(p)
				if err != nil {
					rc.Violate("c15.write", variant+"/write-error", "%s %s: Write #%d of %d bytes failed: %v", variant, name, i, len(p), err)
					return
				}
				if n != len(p) {
					rc.Violate("c15.write", variant+"/short-write", "%s %s: Write #%d of %d bytes returned n=%d without error", variant, name, i, len(p), n)
					return
				}
			}
		}()
		go func() {
			var got []byte
			reads := 0
			for len(got) < len(want) {
				buf := make([]byte, c15ReadSize(rc))
				n, err := r.Read(buf)
				reads++
				if n < 0 || n > len(buf) {
					rc.Violate("c15.n>len", variant, "%s %s: Read into a %d-byte buffer returned n=%d (err=%v)", variant, name, len(buf), n, err)
					done <- false
					return
				}
				got = append(got, buf[:n]...)
				if err != nil {
					if err == io.EOF {
						rc.Violate("c15.spurious-eof", "empty-record", "%s %s: Read returned io.EOF after %d of %d bytes of an intact stream", variant, name, len(got), len(want))
					} else {
						rc.Violate("c15.read-error", variant, "%s %s: Read failed after %d of %d bytes: %v", variant, name, len(got), len(want), err)
					}
					done <- false
					return
				}
				if !hasPrefix(want, got) {
					rc.Violate("c15.bytes-differ", variant, "%s %s: after %d reads the %d bytes read are not a prefix of the %d bytes written (first difference at %d; last buffer %d bytes, n=%d)", variant, name, reads, len(got), len(want), firstDiff(got, want), len(buf), n)
					done <- false
					return
				}
			}
			rc.ProbeN("c15.reads", reads)
			done <- true
		}()
		return done
	}
	wa := mkWrites("wa", 1)
	rc.Sample("kk=%v %s bidir=%v, %d writes A->B (sizes %v ...)", kk, variant, bidir, len(wa), sizesOf(wa, 5))
	s.ca.SetReadDeadline(time.Now().Add(10 * time.Minute))
	s.cb.SetReadDeadline(time.Now().Add(10 * time.Minute))
	d1 := run("A->B", w, r, wa, "ra")
	ok := true
	if bidir {
		wb := mkWrites("wb", 2)
		d2 := run("B->A", r, w, wb, "rb")
		ok = <-d2 && ok
	}
	ok = <-d1 && ok
	if ok {
		rc.Progress()
		rc.Fault("stream-exchange")
	}
}

func sizesOf(ws [][]byte, k int) []int {
	var out []int
	for i, w := range ws {
		if i >= k {
			break
		}
		out = append(out, len(w))
	}
	return out
}

func c15Oversize(rc *simrt.RunCtx) {
	sizes := []int{65535, 65536, 65537, 200000}
	size := sizes[rc.Idx()%4]
	tcp := rc.Idx() >= 4
	s := establish(rc, false, 16)
	if s == nil {
		return
	}
	var w, r net.Conn
	variant := "NoiseGrpcConn"
	if tcp {
		variant = "NoiseConn"
		w = &NoiseConn{conn: s.ca, noise: s.cli.conn.noise}
		r = &NoiseConn{conn: s.cb, noise: s.srv.conn.noise}
	} else {
		w, r = s.cli.net, s.srv.net
	}
	big := marker(uint64(size), size)
	tail := marker(77, 50)
	type wres struct {
		n   int
		err error
	}
	wr := make(chan wres, 2)
	go func() {
		n, err := w.Write(big)
		wr <- wres{n, err}
		n2, err2 := w.Write(tail)
		wr <- wres{n2, err2}
	}()
	s.cb.SetReadDeadline(time.Now().Add(5 * time.Second))
	var got []byte
	for {
		buf := make([]byte, 40000)
		n, err := r.Read(buf)
		if n > len(buf) {
			rc.Violate("c15.n>len", variant, "%s: Read into a %d-byte buffer returned n=%d", variant, len(buf), n)
			return
		}
		got = append(got, buf[:n]...)
		if err != nil {
			break
		}
	}
	first, second := <-wr, <-wr
	rc.Sample("%s Write(%d bytes) -> (%d, %v); then Write(50) -> (%d, %v); reader got %d bytes", variant, size, first.n, first.err, second.n, second.err, len(got))
	var want []byte
	if first.err == nil {
		if first.n != size {
			rc.Violate("c15.write", variant+"/short-write", "%s: Write of %d bytes returned n=%d and no error", variant, size, first.n)
			return
		}
		want = append(want, big...)
		rc.Probe("c15.oversize-chunked-or-fits")
	} else {
		rc.Probe("c15.oversize-rejected")
		if first.n > 0 {
			// a partial count with an error is allowed by io.Writer; those
			// bytes must then be the ones delivered
			want = append(want, big[:first.n]...)
		}
	}
	if second.err == nil {
		want = append(want, tail...)
	}
	if !eqBytes(got, want) {
		rc.Violate("c15.bytes-differ", variant+"/oversize", "%s: after Write(%d)=(%d,%v) and Write(50)=(%d,%v) the reader received %d bytes, expected %d (first difference at %d)", variant, size, first.n, first.err, second.n, second.err, len(got), len(want), firstDiff(got, want))
		return
	}
	rc.Progress()
	rc.Fault(fmt.Sprintf("oversize-%d-%v", size, tcp))
}

// c15Exchange writes `writes` on w and reads them back on r with tape-chosen
// buffer sizes; it reports on done whether everything arrived intact.
func c15Exchange(rc *simrt.RunCtx, variant, name string, w, r net.Conn, writes [][]byte) chan bool {
	done := make(chan bool, 1)
	var want []byte
	for _, p := range writes {
		want = append(want, p...)
	}
	go func() {
		for i, p := range writes {
			n, err := w.Write(p)
			if err != nil && variant == "connKit" {
				rc.Probe("c15.connkit-connection-failed-visibly")
				return
			}
			if err != nil {
				rc.Violate("c15.write", variant+"/write-error", "%s %s: Write #%d of %d bytes failed: %v", variant, name, i, len(p), err)
				return
			}
			if n != len(p) {
				rc.Violate("c15.write", variant+"/short-write", "%s %s: Write #%d of %d bytes returned n=%d without error", variant, name, i, len(p), n)
				return
			}
		}
	}()
	go func() {
		var got []byte
		reads := 0
		for len(got) < len(want) {
			buf := make([]byte, c15ReadSize(rc))
			n, err := r.Read(buf)
			reads++
			if n < 0 || n > len(buf) {
				rc.Violate("c15.n>len", variant, "%s %s: Read into a %d-byte buffer returned n=%d (err=%v)", variant, name, len(buf), n, err)
				done <- false
				return
			}
			got = append(got, buf[:n]...)
			if err != nil {
				if err == io.EOF {
					rc.Violate("c15.spurious-eof", "empty-record", "%s %s: Read returned io.EOF after %d of %d bytes of an intact stream", variant, name, len(got), len(want))
				} else if variant == "connKit" && hasPrefix(want, got) {
					// the GBN connection underneath ended (e.g. a duplicated
					// SYN from the set-up phase arriving in the data phase):
					// a visible failure, and what was read is a prefix
					rc.Probe("c15.connkit-connection-failed-visibly")
				} else {
					rc.Violate("c15.read-error", variant, "%s %s: Read failed after %d of %d bytes: %v", variant, name, len(got), len(want), err)
				}
				done <- false
				return
			}
			if !hasPrefix(want, got) {
				rc.Violate("c15.bytes-differ", variant, "%s %s: after %d reads the %d bytes read are not a prefix of the %d bytes written (first difference at %d; last buffer %d bytes, n=%d)", variant, name, reads, len(got), len(want), firstDiff(got, want), len(buf), n)
				done <- false
				return
			}
		}
		// nothing may follow: a short extra read must time out, not deliver
		r.SetReadDeadline(time.Now().Add(3 * time.Second))
		extra := make([]byte, 64)
		if n, _ := r.Read(extra); n > 0 {
			rc.Violate("c15.bytes-differ", variant+"/extra-bytes", "%s %s: %d more bytes were delivered after everything written had been read", variant, name, n)
			done <- false
			return
		}
		rc.ProbeN("c15.reads", reads)
		done <- true
	}()
	return done
}

func c15ConnKit(rc *simrt.RunCtx) {
	pr := newPrng(rc.Seed())
	rl := newRelay(rc, relayFaults{latMin: time.Millisecond, latMax: time.Duration(2+rc.Pick(10, "relay.latmax")) * time.Millisecond})
	pass := pr.bytes(14)
	sdata := NewConnData(pr.ecdh(), nil, pass, nil, nil, nil)
	cdata := NewConnData(pr.ecdh(), nil, pass, nil, nil, nil)
	srv := newSimServer(rl, sdata)
	ctx, cancel := context.WithCancel(context.Background())
	defer cancel()
	cli := newSimClient(ctx, rl, cdata)
	type res struct {
		c   net.Conn
		err error
	}
	sc, cc := make(chan res, 1), make(chan res, 1)
	go func() { c, err := srv.Accept(); sc <- res{c, err} }()
	go func() {
		// usually the server's mailboxes exist before the client dials (a
		// client that starts first retries "stream not found" every 2 s, in
		// step with the 2 s GBN handshake timeout, which tends to end the
		// fresh connection with an unexpected duplicate SYN)
		time.Sleep(time.Duration(rc.Pick(5, "wl.dial-delay")) * time.Second)
		c, err := cli.Dial(ctx, "")
		cc <- res{c, err}
	}()
	var sconn, cconn net.Conn
	for i := 0; i < 2; i++ {
		select {
		case r := <-sc:
			sconn = r.c
		case r := <-cc:
			cconn = r.c
		case <-time.After(2 * time.Minute):
		}
	}
	if sconn == nil || cconn == nil {
		rc.HarnessError("plain mailbox connection not established over a fault-free relay")
		srv.Close()
		return
	}
	mk := func(label string, tag uint64) [][]byte {
		n := 2 + rc.Pick(10, label+".n")
		var out [][]byte
		for i := 0; i < n; i++ {
			var size int
			switch rc.Pick(6, label+".kind") {
			case 0, 1:
				size = 0
			case 2:
				size = 1 + rc.Pick(10, label+".s")
			case 3:
				size = 1 + rc.Pick(1000, label+".s")
			case 4:
				size = 1 + rc.Pick(40000, label+".s")
			case 5:
				size = 1 + rc.Pick(100000, label+".s")
			}
			out = append(out, marker(tag*1000+uint64(i), size))
		}
		// always end with data so that the reader's count is reached
		return append(out, marker(tag*1000+999, 1+rc.Pick(50, label+".last")))
	}
	wa, wb := mk("wa", 1), mk("wb", 2)
	rc.Sample("plain connKit: client->server writes %v, server->client writes %v", sizesOf(wa, 8), sizesOf(wb, 8))
	rc.Knob("case", fmt.Sprintf("%v %v", sizesOf(wa, 12), sizesOf(wb, 12)))
	d1 := c15Exchange(rc, "connKit", "client->server", cconn, sconn, wa)
	d2 := c15Exchange(rc, "connKit", "server->client", sconn, cconn, wb)
	ok := <-d1
	ok = <-d2 && ok
	if ok {
		rc.Progress()
		rc.Fault("connkit-exchange")
	}
	cconn.Close()
	sconn.Close()
	srv.Close()
}
