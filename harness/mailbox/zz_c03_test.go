package mailbox

// C03 - only holders of the pairing secret (first handshake) or of the paired
// static keys (repeat handshake) can complete a handshake; on any mismatch the
// responder aborts before emitting any handshake response - its auth payload
// is never released - and neither side ends up with session keys.

import (
	"bytes"
	"context"
	"fmt"
	"io"
	"time"

	"github.com/btcsuite/btcd/btcec/v2"
	"github.com/lightningnetwork/lnd/keychain"
	"simrt"
)

func init() {
	simrt.Register(&simrt.Scenario{
		Prop: "C03", Name: "xx-one-bit", Enumerated: true, Count: fixed(112),
		Run: c03OneBit, MaxOps: 1 << 20, Horizon: time.Hour,
		Doc: "XX handshake where the initiator's passphrase differs from the responder's in exactly one bit - each of the 112 bit positions",
	})
	simrt.Register(&simrt.Scenario{
		Prop: "C03", Name: "kk-mismatch", Enumerated: true, Count: fixed(len(c03Shapes) * 3),
		Run: c03KK, MaxOps: 1 << 20, Horizon: time.Hour,
		Doc: "KK handshake with each key-mismatch shape (initiator stored a wrong responder key / responder stored a wrong initiator key / both / initiator presents another static key) / a responder with a paired key on file that is capped below version 2 and a stranger who knows the old passphrase) x auth payload sizes",
	})
	simrt.Register(&simrt.Scenario{
		Prop: "C03", Name: "kk-scripted-impostor", Enumerated: true, Count: fixed(6),
		Run: c03ScriptedImpostor, MaxOps: 1 << 20, Horizon: time.Hour,
		Doc: "a genuine initiator that stored the responder's key at pairing time (KK) against a scripted responder that knows only the two static PUBLIC keys: it cannot verify act 1, skips that check, keeps its transcript in step and answers with an act 2 built by the package's own message writer (auth payload 0 / 64 / 4096 bytes x its DH results from an unrelated private key or all-zero): the initiator must reject act 2",
	})
	simrt.Register(&simrt.Scenario{
		Prop: "C03", Name: "concurrent-sessions", Count: tiered(1500, 240000),
		Run: c03Concurrent, MaxOps: 1 << 20, Horizon: time.Hour,
		Doc: "several sessions with different passphrases set up and shaken hands concurrently in one process (tape-ordered at every lock and channel operation), among them a client that knows another session's passphrase only: that one must be rejected exactly as when it runs alone",
	})
	simrt.Register(&simrt.Scenario{
		Prop: "C03", Name: "random", Count: tiered(3000, 480000),
		Run: c03Random, MaxOps: 1 << 20, Horizon: time.Hour,
		Doc: "random equal / unequal passphrases, correct / wrong static keys, all constructible version ranges, auth payload sizes 0..1 MiB, a sample at production scrypt cost; tape-chosen start order of the two parties",
	})
}

var c03AuthSizes = []int{0, 1, 498, 4096, 1 << 20}

// c03Judge evaluates the mismatch oracle.
func c03Judge(rc *simrt.RunCtx, what, cause string, sp hsSpec, cli, srv *party, ca, cb *simConn) {
	// (a) the responder wrote nothing at all
	cb.out.mu.Lock()
	respWrote := len(cb.out.written)
	cb.out.mu.Unlock()
	if respWrote > 0 {
		rc.Violate("c03.responder-wrote", cause, "%s: the responder emitted %d handshake bytes although the secrets do not match", what, respWrote)
		return
	}
	// (b) both fail (the initiator by its read deadline at the latest)
	if srv.err == nil {
		rc.Violate("c03.completed", cause+"/responder", "%s: the responder completed the handshake", what)
		return
	}
	if cli.err == nil {
		rc.Violate("c03.completed", cause+"/initiator", "%s: the initiator completed the handshake", what)
		return
	}
	// (c) no session keys, nothing stored, no callbacks
	for _, p := range []*party{cli, srv} {
		if splitDone(p.conn.noise) {
			rc.Violate("c03.session-keys", cause, "%s: a party holds send/receive cipher states after a failed handshake", what)
			return
		}
		if len(p.gotAuth) > 0 || len(p.gotKeys) > 0 {
			rc.Violate("c03.published", cause, "%s: onAuthData/onRemoteStatic fired (%d/%d) although the handshake failed", what, len(p.gotAuth), len(p.gotKeys))
			return
		}
	}
	if len(cli.data.AuthData()) != 0 {
		rc.Violate("c03.published", cause+"/authdata", "%s: the initiator stored auth data after a failed handshake", what)
		return
	}
	if sp.cliRemote == nil && cli.data.RemoteKey() != nil || sp.srvRemote == nil && srv.data.RemoteKey() != nil {
		rc.Violate("c03.published", cause+"/remotekey", "%s: a remote key was stored after a failed XX handshake", what)
		return
	}
	// (d) the auth payload never appears on the wire
	if len(sp.auth) >= 16 {
		for _, h := range []*half{ca.out, cb.out} {
			h.mu.Lock()
			leak := containsWindow(h.wire, sp.auth, 16)
			h.mu.Unlock()
			if leak {
				rc.Violate("c03.payload-on-wire", cause, "%s: bytes of the auth payload appear on the wire", what)
				return
			}
		}
	}
	rc.Probe("c03.mismatch-rejected")
}

func c03OneBit(rc *simrt.RunCtx) {
	bit := rc.Idx() % 112
	pr := newPrng(rc.Seed())
	installEphemeralGen(pr)
	pass := pr.bytes(14)
	other := append([]byte(nil), pass...)
	other[bit/8] ^= 1 << (bit % 8)
	auth := marker(rc.Seed(), 64)
	sp := hsSpec{cliPass: other, srvPass: pass, cliKey: pr.ecdh(), srvKey: pr.ecdh(), auth: auth, cMin: 0, cMax: 2, sMin: 0, sMax: 2}
	if rc.Pick(2, "knob.whichside") == 1 {
		sp.cliPass, sp.srvPass = pass, other
	}
	ca, cb := newDuplex()
	cli, srv := runHandshake(rc, sp, ca, cb)
	waitParties(cli, srv)
	rc.Sample("XX, passphrases differ in bit %d: initiator %s, responder %s", bit, describeErr(cli.err), describeErr(srv.err))
	c03Judge(rc, fmt.Sprintf("XX passphrase differing in bit %d", bit), "one-bit-passphrase", sp, cli, srv, ca, cb)
	rc.Progress()
	rc.Fault(fmt.Sprintf("bit-%d", bit))
}

func c03KKSpec(pr *prng, shape int, auth []byte) hsSpec {
	ck, sk := pr.ecdh(), pr.ecdh()
	sp := hsSpec{cliPass: pr.bytes(14), cliKey: ck, srvKey: sk, cliRemote: sk.PubKey(), srvRemote: ck.PubKey(), auth: auth, cMin: 2, cMax: 2, sMin: 2, sMax: 2}
	sp.srvPass = sp.cliPass
	wrong := func() *btcec.PublicKey { return pr.key().PubKey() }
	switch shape {
	case 0: // initiator stored a wrong responder key
		sp.cliRemote = wrong()
	case 1: // responder stored a wrong initiator key
		sp.srvRemote = wrong()
	case 2: // both wrong
		sp.cliRemote, sp.srvRemote = wrong(), wrong()
	case 3: // initiator presents another static key than the one stored at pairing
		sp.cliKey = pr.ecdh()
	case 4: // impersonation: the paired public key, but somebody else's private key
		sp.cliKey = &forgedECDH{pub: ck.PubKey(), priv: pr.ecdh()}
	case 5: // the responder is the impersonator
		sp.srvKey = &forgedECDH{pub: sk.PubKey(), priv: pr.ecdh()}
	case 6, 7, 8:
		// the responder has a paired key on file but is capped below the
		// handshake version that carries the key-based pattern; somebody who
		// knows the old pairing passphrase, with a static key of his own,
		// knocks (as a first-time client, or with the responder's key stored)
		sp.cliKey = pr.ecdh()
		sp.cliRemote = nil
		sp.cMin, sp.cMax, sp.sMin, sp.sMax = 0, 1, 0, 1
		if shape == 7 {
			sp.cMax, sp.sMax = 2, 0
		}
		if shape == 8 {
			sp.cliRemote = sk.PubKey()
		}
	}
	return sp
}

var c03Shapes = []string{"initiator-has-wrong-responder-key", "responder-has-wrong-initiator-key", "both-wrong", "initiator-presents-other-key", "initiator-impersonates-paired-key", "responder-impersonates-paired-key",
	"version-capped-responder-with-paired-key/passphrase-client", "version-0-responder-with-paired-key/passphrase-client", "version-capped-responder-with-paired-key/client-stored-key"}

// forgedECDH claims one public key and computes its Diffie-Hellman results
// with an unrelated private key: a party that knows the paired public keys
// but not the private one.
type forgedECDH struct {
	pub  *btcec.PublicKey
	priv keychain.SingleKeyECDH
}

func (f *forgedECDH) PubKey() *btcec.PublicKey                  { return f.pub }
func (f *forgedECDH) ECDH(p *btcec.PublicKey) ([32]byte, error) { return f.priv.ECDH(p) }

func c03KK(rc *simrt.RunCtx) {
	shape := rc.Idx() % len(c03Shapes)
	size := []int{0, 64, 4096}[(rc.Idx()/len(c03Shapes))%3]
	pr := newPrng(rc.Seed())
	installEphemeralGen(pr)
	auth := marker(rc.Seed(), size)
	sp := c03KKSpec(pr, shape, auth)
	ca, cb := newDuplex()
	cli, srv := runHandshake(rc, sp, ca, cb)
	waitParties(cli, srv)
	rc.Sample("KK %s auth=%dB: initiator %s, responder %s", c03Shapes[shape], size, describeErr(cli.err), describeErr(srv.err))
	c03Judge(rc, "KK "+c03Shapes[shape], "kk/"+c03Shapes[shape], sp, cli, srv, ca, cb)
	rc.Progress()
	rc.Fault("kk-" + c03Shapes[shape])
}

// zeroECDH claims a public key and answers every Diffie-Hellman with zeros.
type zeroECDH struct{ pub *btcec.PublicKey }

func (z *zeroECDH) PubKey() *btcec.PublicKey                { return z.pub }
func (z *zeroECDH) ECDH(*btcec.PublicKey) ([32]byte, error) { return [32]byte{}, nil }

func c03ScriptedImpostor(rc *simrt.RunCtx) {
	size := []int{0, 64, 4096}[rc.Idx()%3]
	zero := rc.Idx()/3 == 1
	pr := newPrng(rc.Seed())
	installEphemeralGen(pr)
	ck, sk := pr.ecdh(), pr.ecdh()
	auth := marker(rc.Seed(), size)
	var gotKeys, gotAuth int
	cdata := NewConnData(ck, sk.PubKey(), nil, nil,
		func(*btcec.PublicKey) error { gotKeys++; return nil },
		func([]byte) error { gotAuth++; return nil })
	ccreds := NewNoiseGrpcConn(cdata)
	var fake keychain.SingleKeyECDH = &forgedECDH{pub: sk.PubKey(), priv: pr.ecdh()}
	if zero {
		fake = &zeroECDH{pub: sk.PubKey()}
	}
	impostor, err := NewBrontideMachine(&BrontideMachineConfig{
		Initiator: false, HandshakePattern: KKPattern,
		MinHandshakeVersion: MinHandshakeVersion, MaxHandshakeVersion: MaxHandshakeVersion,
		ConnData: NewConnData(fake, ck.PubKey(), nil, auth, nil, nil),
	})
	if err != nil {
		rc.HarnessError("impostor machine: %v", err)
		return
	}
	ca, cb := newDuplex()
	impDone := make(chan error, 1)
	go func() {
		impDone <- func() error {
			// act 1: version byte, tokens, MAC over the empty payload - which
			// the impostor cannot check; it only keeps the transcript in step
			var version [1]byte
			if _, err := io.ReadFull(cb, version[:]); err != nil {
				return err
			}
			if err := impostor.readTokens(cb, KKPattern.Pattern[0].Tokens); err != nil {
				return err
			}
			var mac [macSize]byte
			if _, err := io.ReadFull(cb, mac[:]); err != nil {
				return err
			}
			impostor.mixHash(mac[:])
			var act2 bytes.Buffer
			if err := impostor.writeMsgPattern(&act2, KKPattern.Pattern[1]); err != nil {
				return err
			}
			cb.Write(act2.Bytes())
			return nil
		}()
	}()
	cliDone := make(chan error, 1)
	go func() {
		_, _, err := ccreds.ClientHandshake(context.Background(), "", ca)
		cliDone <- err
	}()
	var cliErr error
	select {
	case cliErr = <-cliDone:
	case <-time.After(10 * time.Minute):
		rc.Violate("c03.completed", "kk/scripted-impostor-responder/initiator-hangs", "the initiator neither failed nor completed within 10 virtual minutes")
		return
	}
	select {
	case err := <-impDone:
		if err != nil {
			rc.HarnessError("the impostor could not run its script: %v", err)
			return
		}
	case <-time.After(time.Minute):
	}
	what := fmt.Sprintf("KK initiator against a scripted responder that holds only public keys (auth %d B, zero DH %v)", size, zero)
	rc.Sample("%s: initiator %s", what, describeErr(cliErr))
	switch {
	case cliErr == nil:
		rc.Violate("c03.completed", "kk/scripted-impostor-responder/initiator", "%s: the initiator completed the handshake", what)
	case splitDone(ccreds.noise):
		rc.Violate("c03.session-keys", "kk/scripted-impostor-responder", "%s: the initiator holds session keys after a failed handshake", what)
	case gotKeys > 0 || gotAuth > 0 || len(cdata.AuthData()) != 0:
		rc.Violate("c03.published", "kk/scripted-impostor-responder", "%s: the initiator published what the impostor sent (key callbacks %d, auth callbacks %d, stored auth %d B)", what, gotKeys, gotAuth, len(cdata.AuthData()))
	default:
		rc.Probe("c03.mismatch-rejected")
	}
	rc.Progress()
	rc.Fault("kk-scripted-impostor-responder")
}

func c03Random(rc *simrt.RunCtx) {
	pr := newPrng(rc.Seed())
	installEphemeralGen(pr)
	prod := rc.Pick(40, "knob.prodscrypt") == 39
	if prod {
		scryptN = prodScryptN
		defer func() { scryptN = 16 }()
		rc.Probe("c03.production-scrypt")
	}
	size := c03AuthSizes[rc.Pick(len(c03AuthSizes), "knob.auth")]
	auth := marker(rc.Seed(), size)
	kk := rc.Pick(3, "knob.kk") == 2
	match := rc.Pick(2, "knob.match") == 0
	var sp hsSpec
	what := ""
	if kk {
		if match {
			sp = c03KKSpec(pr, -1, auth)
			what = "KK matching keys"
		} else {
			shape := rc.Pick(len(c03Shapes), "knob.shape")
			sp = c03KKSpec(pr, shape, auth)
			what = "KK " + c03Shapes[shape]
		}
		sp.cMin, sp.sMin = byte(rc.Pick(3, "knob.cmin")), byte(rc.Pick(3, "knob.smin"))
	} else {
		plen := []int{14, 14, 14, 16, 32, 5}[rc.Pick(6, "knob.passlen")]
		pass := pr.bytes(plen)
		sp = hsSpec{cliPass: pass, srvPass: pass, cliKey: pr.ecdh(), srvKey: pr.ecdh(), auth: auth}
		if !match {
			o := pr.bytes(plen)
			switch rc.Pick(5, "knob.difference") {
			case 1: // a few flipped bits anywhere
				o = append([]byte(nil), pass...)
				for k := 0; k < 1+rc.Pick(3, "knob.nbits"); k++ {
					b := rc.Pick(plen*8, "knob.bit")
					o[b/8] ^= 1 << (b % 8)
				}
			case 2: // only the very last bit differs
				o = append([]byte(nil), pass...)
				o[plen-1] ^= 1
			case 3: // one is a proper prefix of the other
				if plen > 2 {
					o = append([]byte(nil), pass[:plen-1-rc.Pick(plen-2, "knob.cut")]...)
				}
			case 4: // same bytes followed by zeros
				o = append(append([]byte(nil), pass...), make([]byte, 1+rc.Pick(4, "knob.zeros"))...)
			}
			if eqBytes(o, pass) {
				o[0] ^= 1
			}
			sp.cliPass = o
			if rc.Pick(2, "knob.swap") == 1 {
				sp.cliPass, sp.srvPass = sp.srvPass, sp.cliPass
			}
			what = fmt.Sprintf("XX different passphrases (%d vs %d bytes)", len(sp.cliPass), len(sp.srvPass))
		} else {
			what = "XX same passphrase"
		}
		sp.cMin = byte(rc.Pick(3, "knob.cmin"))
		sp.cMax = sp.cMin + byte(rc.Pick(3-int(sp.cMin), "knob.cmax"))
		sp.sMin = byte(rc.Pick(3, "knob.smin"))
		sp.sMax = sp.sMin + byte(rc.Pick(3-int(sp.sMin), "knob.smax"))
	}
	rc.Knob("case", fmt.Sprintf("%s c[%d,%d] s[%d,%d] auth=%d prod=%v", what, sp.cMin, sp.cMax, sp.sMin, sp.sMax, size, prod))
	ca, cb := newDuplex()
	cli, srv := runHandshake(rc, sp, ca, cb)
	waitParties(cli, srv)
	rc.Sample("%s versions c[%d,%d] s[%d,%d] auth=%dB prod-scrypt=%v: initiator %s, responder %s", what, sp.cMin, sp.cMax, sp.sMin, sp.sMax, size, prod, describeErr(cli.err), describeErr(srv.err))
	rc.Progress()
	if !match {
		rc.Fault("mismatch")
		c03Judge(rc, what, "random-mismatch", sp, cli, srv, ca, cb)
		return
	}
	if cli.err == nil && srv.err == nil {
		rc.Probe("c03.match-completed")
		if !eqBytes(cli.data.AuthData(), auth) {
			rc.Violate("c03.match-authdata", "auth-differs", "%s: handshake completed but the initiator holds %d auth bytes that differ from the responder's %d", what, len(cli.data.AuthData()), len(auth))
		}
	} else {
		// not every version combination can complete, and a v0 responder
		// refuses a payload that does not fit; counted
		rc.Probe("c03.match-not-completed")
	}
}

// c03Concurrent: handshakes of different sessions run concurrently in one
// process; anything the implementation shares between them (caches, scratch
// buffers) must not let the holder of one session's passphrase into another.
func c03Concurrent(rc *simrt.RunCtx) {
	pr := newPrng(rc.Seed())
	installEphemeralGen(pr)
	k := 2 + rc.Pick(2, "wl.sessions")
	passes := make([][]byte, k)
	for i := range passes {
		passes[i] = pr.bytes(14)
	}
	type pair struct {
		sp       hsSpec
		ca, cb   *simConn
		cli, srv *party
		match    bool
		what     string
	}
	var pairs []*pair
	add := func(ci, si int) {
		auth := marker(rc.Seed()+uint64(len(pairs)), 64)
		sp := hsSpec{cliPass: passes[ci], srvPass: passes[si], cliKey: pr.ecdh(), srvKey: pr.ecdh(), auth: auth, cMin: 0, cMax: 2, sMin: 0, sMax: 2}
		ca, cb := newDuplex()
		pairs = append(pairs, &pair{sp: sp, ca: ca, cb: cb, match: ci == si, what: fmt.Sprintf("client with passphrase #%d at the server of session #%d", ci, si)})
	}
	waves := 1 + rc.Pick(2, "wl.waves")
	for w := 0; w < waves && !rc.Failed(); w++ {
		pairs = pairs[:0]
		// the honest sessions ...
		for i := 0; i < k; i++ {
			if rc.Pick(4, "wl.skip-honest") != 0 {
				add(i, i)
			}
		}
		// ... and one or two strangers
		for j := 0; j < 1+rc.Pick(2, "wl.strangers"); j++ {
			ci := rc.Pick(k, "wl.stranger-pass")
			si := (ci + 1 + rc.Pick(k-1, "wl.stranger-target")) % k
			add(ci, si)
		}
		// tape-chosen start order
		order := make([]int, len(pairs))
		for i := range order {
			order[i] = i
		}
		for i := len(order) - 1; i > 0; i-- {
			j := rc.Pick(i+1, "wl.order")
			order[i], order[j] = order[j], order[i]
		}
		for _, i := range order {
			p := pairs[i]
			p.cli, p.srv = runHandshake(rc, p.sp, p.ca, p.cb)
		}
		for _, p := range pairs {
			waitParties(p.cli, p.srv)
		}
		for _, p := range pairs {
			if rc.Failed() {
				break
			}
			if p.match {
				if p.cli.err != nil || p.srv.err != nil {
					// C03 does not promise success; counted, not judged
					rc.Probe("c03.honest-concurrent-handshake-failed")
				} else {
					rc.Probe("c03.honest-concurrent-handshake-ok")
				}
				continue
			}
			c03Judge(rc, "concurrent sessions: "+p.what, "concurrent/stranger", p.sp, p.cli, p.srv, p.ca, p.cb)
		}
	}
	rc.Sample("%d sessions, %d wave(s) of concurrent handshakes with strangers", k, waves)
	rc.Progress()
	rc.Fault("concurrent-sessions")
}
