# Per-property metadata used by ./check: which harness packages to build, the
# evidence level, the generation rule text, assumptions and the real/stub table.

GBN_COMPONENTS = {
    "gbn (all files)": "real code, instrumented copy of the working tree",
    "transport under GBN": "stub: seeded per-direction FIFO links (drop / adjacent duplicate / delay / blackout / stall)",
    "clock, timers, goroutine scheduling, select choice": "simulated (testing/synctest virtual clock + simrt scheduler driven by the choice tape)",
}

SIG_RULE = (" A run is non-trivial if it made protocol progress and had at least one context switch to a different task or one fired fault;"
            " distinct = distinct schedule-and-fault signatures (hash of the sequence of non-default scheduling decisions (task, site) and of fired faults), counted by the machinery.")

PROPS = {
    "C01": {
        "pkgs": ["gbn"],
        "level": "exploration",
        "quick_budget": 50, "thorough_budget": 1500,
        "rule": "Seeded simulated runs of a real client+server GoBackNConn pair (handshake included) with concurrent traffic in both directions; per run the tape draws N (1..254, biased to 1,2,3,20,64,253,254), chunking, static/adaptive timeouts, keepalive, per-direction drop/dup/delay rates, message counts and sizes, and every scheduling decision. Applications vary per run: readers that lag behind by more than a window of packets, readers with a receive timeout (1 ms..1 s) that they retry after, writers with idle gaps. In a quarter of the runs the writers send every message from one scratch buffer that they overwrite as soon as Send has returned." + SIG_RULE,
        "assumptions": ["transport keeps per-direction order (property precondition)", "harness oracle regenerates each expected message from (direction, index, size)"],
        "components": GBN_COMPONENTS,
        "expected_probes": ["c01.recv-timeout-retried", "c01.complete", "c01.seq-wrapped"],
        "level_text": "Seeded search over schedules and fault sequences of the real Go-Back-N code in virtual time: every run is an exactly repeatable execution, thousands (quick) to >100k (thorough) of them with swarm-varied window sizes, timeouts, fault mixes and workloads; a violation is minimised and replayed in a fresh process. Evidence, not proof.",
        "level_note": "Trusts the Go runtime, testing/synctest's virtual clock and the instrumenter's rewrite (channel ops, select, locks, spawns, sleeps are the scheduling points); the transport is a stub that keeps per-direction order as the property presupposes.",
    },
}

LEVEL_NOTE_GBN = "Trusts the Go runtime, testing/synctest's virtual clock and the instrumenter's rewrite (channel ops, select, locks, spawns, sleeps are the scheduling points); the transport is a stub written for the harness."
EXPL_TEXT = "Seeded search over schedules and fault sequences of the real code in virtual time: one seed is one exactly repeatable execution; many short swarm-varied runs; every violation is minimised and replayed in a fresh process. A clean batch is evidence, not proof."

PROPS["C09"] = {
    "pkgs": ["gbn"],
    "level": "exploration",
    "quick_budget": 50, "thorough_budget": 1500,
    "rule": "Three sub-batches. window-wire: simulated bidirectional traffic (N drawn from 1..254, lossy/duplicating/delaying links, static/adaptive timeouts, keepalive on/off) with a black-box wire monitor (first transmissions minus cumulative acknowledgements delivered) and white-box queue invariants evaluated at every transmission. send-blocks: acknowledgements withheld after the handshake, count of returned Sends compared with N, then released. window-arith: exhaustive enumeration, per sequence space s in {2..40,64,65,128,129,200,254,255}, of every (base,top) x every ACK and NACK byte value through the real processACK/processNACK. send-wakeup: a stream of messages over a fault-free (in half of the runs zero-latency) link with a resend timeout of seconds - no Send may take longer than a round trip plus a margin; scripted: ACKs of a full window lost, a DATA packet duplicated, the NACK(top) that empties the window must release the blocked Send." + SIG_RULE + " For the enumerated sub-batch a case is one s; its signature is s.",
    "assumptions": ["wire monitor counts an ACK as processed when the transport delivers it, which can only under-estimate what the sender considers outstanding (sound for the <= N claim)"],
    "components": GBN_COMPONENTS,
    "expected_probes": ["c09.window-filled", "c09.retransmission", "c09.arith-cases"],
    "level_text": EXPL_TEXT + " The window arithmetic sub-batch is a complete enumeration over the listed sequence spaces.",
    "level_note": LEVEL_NOTE_GBN,
}

PROPS["C10"] = {
    "pkgs": ["gbn"],
    "level": "exploration",
    "quick_budget": 50, "thorough_budget": 1500,
    "rule": "hs-random: real NewClientConn/NewServerConn inside application retry loops (as grpc provides), tape-chosen start order incl. a late server, random drop/dup/delay of every packet during a fault prefix of 1..20 virtual seconds, 0..5 stale packets of every type (SYN with same/other N, SYNACK, ACK, NACK, DATA, PING, FIN) pre-queued per direction, N from 1..254; hs-patterns: complete enumeration of drop/duplicate/delay-past-timeout on each of the first six handshake packets, all singles and all pairs, both start orders. Safety oracle at every successful constructor return (server window is one a delivered SYN proposed, representable, and equals the client's when data flows); progress oracle at a bound after the last fault. The client's wire behaviour is monitored (a SYNACK only after an echo of its own window); hs-stray enumerates one stray packet of every type at six instants around the SYN / echo / SYNACK exchange. hs-stray also has a kind in which the transport's receive function returns an error to one side at each of the six instants." + SIG_RULE,
    "assumptions": ["progress bound = last fault + 120 x handshake timeout + 4 x (ping+pong) + 5 virtual minutes; the defects it is meant to catch are unbounded", "stale SYNs model an earlier connection of the same session and may carry another N"],
    "components": GBN_COMPONENTS,
    "expected_probes": ["c10.attempt-failed-with-error", "c10.reconnected"],
    "level_text": EXPL_TEXT + " The handshake-pattern sub-batch enumerates its finite fault set completely.",
    "level_note": LEVEL_NOTE_GBN,
}

PROPS["C06"] = {
    "pkgs": ["gbn"],
    "level": "exploration",
    "quick_budget": 60, "thorough_budget": 1800,
    "rule": "Runs of the shape clean handshake -> fault prefix (0..39 virtual seconds of random drop/dup/delay/blackouts, or scripted tail loss of the last packets of a burst followed by application silence) -> reliable suffix with latency below the resend timeout; N from 1..254, adaptive or static resend timeouts (100 ms .. 8 s, i.e. below, at and above the peer's ping interval), keepalive off / symmetric / the mailbox's 7s-5s-3s, uni- and bidirectional bursts. Oracles at a horizon max(10 min, 50x(ping+pong), 200x resend timeout at heal time) after the last fault." + SIG_RULE,
    "assumptions": ["time bounds are generous multiples of the configured timers; the defects they are meant to catch are unbounded stalls", "closure of an endpoint is observed white-box (quit channel)"],
    "components": GBN_COMPONENTS,
    "expected_probes": ["c06.all-delivered", "c06.closed-by-keepalive", "c06.tail-dropped"],
    "level_text": EXPL_TEXT,
    "level_note": LEVEL_NOTE_GBN,
}

PROPS["C13"] = {
    "pkgs": ["gbn", "mailbox"],
    "level": "exploration",
    "quick_budget": 120, "thorough_budget": 1800,
    "rule": "dead-peer: after a clean handshake and a little traffic both directions go silent forever at a tape-chosen millisecond (0..20 s), with 0..N+3 messages queued per side at that instant (idle, sending, window full, window full with a blocked Send), ping/pong pairs incl. 5s/7s/3s and pong>ping, static and adaptive resend timeouts; each endpoint must be closed, with all blocked and new calls failing, by t_silence + 3x(ping+pong) + 20x resend timeout + 5 s. idle-healthy: fault-free link with one-way latency up to pong/2, idle for up to 12 virtual hours (bounded to 2500 ping intervals) with occasional traffic, sometimes with transport write calls that return only after the packet (and its acknowledgement) travelled; never closed. mb-dead-peer: the full mailbox stack over the stub relay; on the first, second or third connection of a session the relay starts swallowing every message; both applications' calls must fail within 90 s. idle-resonant: idle-healthy on windows of 1-3 packets (the pings themselves fill the window), equal ping intervals, one-way latency a multiple of ping/8 and a pong timeout between the round trip and ping + round trip, so that ping ticks, pong expiries and packet arrivals share virtual instants and the tape orders them. idle-lost-ack: a fast link that loses an isolated ACK now and then (the retransmitted ping is answered with a NACK well inside the pong timeout). full-window-lost-acks: the acknowledgements of one full window are lost while the resend timeout is 1-3 x (ping + pong) and the peer's own pings are rare: the keepalive has to probe the live peer, not drop it. dead-peer: in half of the runs the connection has been through, and recovered from, a blackout on a full window before the silence. In the idle scenarios a keepalive closure is a violation unless the endpoint, after a ping time of silence, transmitted something (its ping, or the probe resend) and then nothing was delivered to it for its pong timeout - then the peer did not answer and closing is what the property asks for." + SIG_RULE,
    "assumptions": ["closure observed white-box (quit channel) plus blocked/new call results", "bound multipliers are generous; the defect class is unbounded non-detection"],
    "components": GBN_COMPONENTS,
    "expected_probes": ["c13.burst-ack-lost", "c13.ack-lost", "c13.client-idle", "c13.client-sending", "c13.client-window-full", "c13.client-window-full+blocked-send"],
    "level_text": EXPL_TEXT,
    "level_note": LEVEL_NOTE_GBN,
}

PROPS["C12"] = {
    "pkgs": ["gbn", "mailbox"],
    "level": "exploration",
    "quick_budget": 60, "thorough_budget": 1800,
    "rule": "Per run the tape picks the phase in which Close lands (constructor context cancelled mid-handshake, idle, mid-burst, full window with a blocked Send, inside a resend / sync wait, only Recv blocked) and the virtual instant inside it, who closes (client, server, both at the same instant), 1-3 concurrent callers per endpoint plus a repeated Close, the transport state at that moment (healthy, total blackout, send callbacks stalled until their context is cancelled), N, timeouts and keepalive. Oracles: Close returns within FIN timeout + 2 s; blocked and later local calls fail; the peer is closed with all its calls failed within FIN timeout + 2 x latency + 2 s on a healthy transport (keepalive bound on a dead one); afterwards no task spawned by the connection code is alive (task registry with spawn sites) and no ticker created by it still ticks (drain, advance one virtual hour, look). mb-close: the same for the mailbox connections in the full stack over the stub relay (Close by client / server / both, 1-2 concurrent callers, idle or mid-transfer; bounded return; both applications released; after listener and dialer shutdown nothing of gbn/mailbox is left). close-anytime also has an unread-backlog phase (more than a window of packets received that the application never reads) and, with the stalled transport, a send callback that serialises its callers; mb-close calls Close with the relay down or restarted in one run of five. fin-after-resent-handshake: the handshake needs one retransmission (first SYN or first SYNACK lost), then the peer closes without having sent anything: the FIN is the first packet of the data phase and must end the blocked Recv. mb-close: in half of the runs the relay stub's send side is asynchronous like a gRPC client stream (Send queues and returns; cancelling the stream's context drops what is still queued; CloseAndRecv flushes), and the peer must learn of the closure within 3 s, i.e. from the FIN itself, not from its keepalive. close-anytime also has a peer-stall transport (the send callback of the side that is NOT closing blocks until its context is cancelled while the closer's FIN still arrives) with a peer-burst phase (only the non-closing side sends, continuously); the last Close on each endpoint - for the peer, its application's own Close after the FIN - is bounded like every other." + SIG_RULE,
    "assumptions": ["leak oracle relies on the task registry of the simulator: every goroutine of the code under test is a registered task named by its spawn site"],
    "components": GBN_COMPONENTS,
    "expected_probes": ["c12.mb-closed-with-relay-down", "c12.peer-notified"],
    "level_text": EXPL_TEXT,
    "level_note": LEVEL_NOTE_GBN,
}

PROPS["C14"] = {
    "pkgs": ["gbn"],
    "level": "exploration",
    "quick_budget": 60, "thorough_budget": 1500,
    "rule": "sizes-exhaustive: for each maxChunkSize M in {off,1..5} and window N in {1,2,20}, every payload length 0..3M+1 (0..16 with chunking off) as a single message and every ordered pair of lengths, over one real connection (complete enumeration). sizes-random: sequences of 1..12 messages with lengths 0, 1, exact multiples and multiples +-1 of M, up to 256 KiB, M up to 64 KiB or off, with and without transport faults. deadlines: three messages, the middle one of 2..7 chunks, a receive or send deadline at a tape-chosen millisecond inside it, the timed-out call retried. Oracle: the Recv results equal, element by element, the messages whose Send returned nil. sizes-random: in a third of the runs the sender reuses one scratch buffer (overwritten right after each successful Send), and readers may lag by up to 12 resend timeouts." + SIG_RULE,
    "assumptions": ["a fault-free simulated transport delivers within 2 virtual minutes, so a missing Recv result is a lost message"],
    "components": GBN_COMPONENTS,
    "expected_probes": ["c14.send-buffer-reused", "c14.messages", "c14.deadline-hit-recv"],
    "level_text": EXPL_TEXT + " The small-size sub-batch is a complete enumeration.",
    "level_note": LEVEL_NOTE_GBN,
}

PROPS["C20"] = {
    "pkgs": ["gbn"],
    "level": "exploration",
    "quick_budget": 50, "thorough_budget": 1200,
    "rule": "model-sequential: histories of 20..220 events over {Sent(DATA seq), Resent(DATA seq), Received(ACK seq), Sent(SYN, resent?), Received(SYN|SYNACK), packets without timing information} on 2..7 reused sequence numbers, separated by virtual delays of 0, milliseconds, seconds, 0..5 x the current timeout, or the boost interval +-1 ms; multipliers 1..20, update frequencies 1..300, boost 1..300 %, static mode with arbitrary values; after every event GetResendTimeout/GetHandshakeTimeout are compared with a reference model written from the property statement. invariants-concurrent: three tasks (send loop, receive loop, reader/setter) drive one manager; floor, static-constant and no-deadlock invariants. conn-karn: the manager inside a live adaptive-mode pair with a lossy link and transport write calls that return 0-2 s late; at every ACK for a packet transmitted more than once the base resend timeout must be unchanged by its processing. conn-karn also bounds every sample taken from a packet that was transmitted once by multiplier x its real round trip (transmission to ACK delivery on the wire)." + SIG_RULE,
    "assumptions": ["the reference model encodes: timeout = max(1 s, multiplier x last eligible RTT) x (1 + boost x k), k incremented by a DATA resend at most once per base-timeout interval and reset by an eligible sample, a sample is eligible only if its transmission was never followed by a resend of the same number, recomputation every `frequency` eligible samples (and on the first one)", "comparison tolerance 1e-5 relative + 1 us (float32 arithmetic in the boost)"],
    "components": {"gbn/timeout_manager.go (TimeoutManager, TimeoutBooster)": "real code, instrumented", "clock": "virtual (synctest bubble)", "rest of gbn": "not involved"},
    "expected_probes": ["c20.ack-of-resent-packet", "c20.sample-taken", "c20.ends-boosted"],
    "level_text": EXPL_TEXT + " The oracle is refinement against an executable reference model, event by event.",
    "level_note": LEVEL_NOTE_GBN,
}

PROPS["C18"] = {
    "pkgs": ["gbn"],
    "race": True,
    "level": "exploration",
    "quick_budget": 70, "thorough_budget": 1800,
    "rule": "Race-detector build of the instrumented gbn package under the simulator (scheduler hand-offs hidden from the detector, so only the program's own happens-before edges count). conn-concurrent: real connection pair, keepalive/resend periods that are small multiples of the link latency so that ticks and packet arrivals coincide, 1-2 senders + receiver + timeout-setter per endpoint, 1-2 concurrent Close callers per endpoint. ticker-direct and timeoutmgr-direct: the ticker and the timeout manager driven by three tasks with the connection's call patterns. Violations: any race report whose two accessing frames are not both harness code, any task panic, tasks that never finish. dies-at-birth: the first packet of the data phase (FIN, late handshake packet, garbage) is already waiting when the handshake completes, so that the connection closes itself while its constructor is still starting the loops." + SIG_RULE,
    "assumptions": ["the race detector decides data races by happens-before, so one interleaving of two unsynchronised accesses suffices; interleavings are needed for the panics and deadlocks", "scheduling points are channel ops, locks, wait groups, atomics, spawns and sleeps; plain memory accesses between them are not interleaved (the detector covers those)"],
    "components": GBN_COMPONENTS,
    "expected_probes": [],
    "level_text": EXPL_TEXT + " Data races are decided by the Go race detector over the explored executions.",
    "level_note": LEVEL_NOTE_GBN + " Additionally trusts the race detector and the RaceDisable/RaceEnable discipline of simrt (validated: a deliberately racy toy and the pre-fix ticker are reported on every run).",
}

PROPS["C07"] = {
    "pkgs": ["gbn", "mailbox"],
    "level": "fault_enumeration",
    "quick_budget": 70, "thorough_budget": 1800,
    "rule": "Enumerated: gbn.Deserialize on every byte string of length 0..3 and (thorough: all 2^32; quick: first byte a packet type, 0x00 or 0xFF) 4-byte strings; all 256 SYN window values proposed by a scripted conforming client to a real server, plain and restarted handshake, followed by data in both directions. Sampled: garbage (every type byte x lengths 0..6, all ACK/NACK/SYN byte values, DATA with arbitrary header bytes, truncated/extended/bit-flipped captured packets, random longer strings) injected toward either live endpoint in every phase (before/inside the handshake, idle, k packets outstanding, mid-resend), followed by a conforming exchange. Mailbox part: MsgData.Deserialize on every byte string of length 0..3 and on 5-byte headers with boundary length fields; stripJSONWrapper on a grammar of envelopes; garbage / truncated / extended / mutated Noise handshake acts and encrypted records against real parties in every configuration; forged messages injected by the stub relay into live full-stack sessions. Oracle: no task panics (caught at the task root with stack); white-box window invariants after each injection (s = n+1 >= 2, base/top/recvSeq < s, size <= n). gbn-window-forgery enumerates every forged ACK/NACK value against every window state of the first pass through the sequence numbers (retransmission buffer filled only for packets in flight) for s in 2..40 and larger samples. gbn-nonfinal-flood: 8 MiB of DATA packets without the final-chunk flag delivered in step with the expected sequence number (to server / client, keepalive on / off): must be ignored or fail the connection, not be buffered without limit." + SIG_RULE + " For enumerated sub-batches a case is one first byte / one SYN value.",
    "assumptions": ["GBN packets are unauthenticated: a forged but well-formed ACK/DATA may legitimately disturb the stream (counted by a probe); only crashes and bookkeeping outside the valid range are violations"],
    "components": dict(GBN_COMPONENTS, **{"mailbox package (framing, Noise, conns, Server/Client)": "real code, instrumented copy of the working tree", "hashmail relay": "stub that also forges messages"}),
    "expected_probes": ["c07.deserialize-cases", "c07.scripted-exchange-complete", "c07.server-refused-window", "c07.msgdata-cases", "c07.json-cases", "c05.transfer-complete-after-heal"],
    "level_text": "Fault enumeration: the finite sets named in the rule (all short byte strings into the decoder, all 256 proposals of the SYN window field) are enumerated completely against the real code; injections into live simulated endpoints are seeded samples over phases and schedules.",
    "level_note": LEVEL_NOTE_GBN,
}

NOISE_COMPONENTS = {
    "mailbox: noise.go, noise_patterns.go, conndata.go, crypto.go, grpc_noise_conn.go, tcp_noise_conn.go (NoiseConn)": "real code, instrumented copy of the working tree",
    "btcec, lnd keychain ECDH, chacha20poly1305, hkdf, scrypt": "real (scrypt at the repo's rpctest cost parameter; a sample of runs at the production value)",
    "byte stream under Noise": "stub: in-memory duplex with an adversary stage on write segments, read fragmentation, partial writes with timeout errors, read deadlines on the virtual clock",
    "ephemeral keys / static keys / passphrases": "drawn from the run seed through the package's ephemeralGen seam, so wire bytes replay",
    "gRPC/HTTP2 above the net.Conn, TCP listener, Dial": "not executed",
}
LEVEL_NOTE_NOISE = "Trusts the Go runtime, testing/synctest, the instrumenter's rewrite, and the cryptographic libraries (btcec, x/crypto); the transport below Noise is a harness stub; white-box probes read the Machine's cipher states and version."

PROPS["C03"] = {
    "pkgs": ["mailbox"],
    "level": "fault_enumeration",
    "quick_budget": 60, "thorough_budget": 1200,
    "rule": "Enumerated: an XX handshake for each of the 112 positions at which the initiator's (or responder's) passphrase differs in exactly one bit; each KK key-mismatch shape x three auth payload sizes. Sampled: random equal/unequal passphrases (incl. 1-3 bit differences), correct and wrong static keys, all constructible (min,max) version ranges per side, auth payload sizes {0,1,498,4 KiB,1 MiB}, 1 in 40 runs at production scrypt cost, both start orders. Oracle on mismatch: the responder wrote zero bytes, both parties return errors (the initiator by its read deadline), no cipher states, no callbacks, nothing stored, no 16-byte window of the auth payload on the wire. kk-mismatch also covers a responder with a paired key on file that is capped below handshake version 2 facing a stranger who knows the old passphrase; concurrent-sessions runs 2-3 sessions with different passphrases plus strangers concurrently in one process. kk-scripted-impostor (enumerated, 6 cases): a genuine KK initiator against a scripted responder that holds only the two static public keys, skips the act-1 check it cannot make, keeps its transcript in step and answers with an act 2 from the package's own writer; the initiator must refuse it." + SIG_RULE,
    "assumptions": ["'completes only if' is read as stated: matching handshakes that do not complete (incompatible version ranges, v0 payload too large) are counted, not flagged"],
    "components": NOISE_COMPONENTS,
    "expected_probes": ["c03.mismatch-rejected", "c03.match-completed", "c03.production-scrypt"],
    "level_text": "Fault enumeration over the secret-mismatch space that can be enumerated (every single-bit passphrase difference, every key-mismatch shape) plus seeded sampling of the rest; each case is a real two-party handshake under the simulator.",
    "level_note": LEVEL_NOTE_NOISE,
}

PROPS["C04"] = {
    "pkgs": ["mailbox"],
    "level": "fault_enumeration",
    "quick_budget": 70, "thorough_budget": 1800,
    "rule": "Enumerated: every constructible (clientMin,clientMax,serverMin,serverMax) in {0,1,2}^4 x {XX,KK} x auth payload size {0,1,497,498,499,500,65535,1 MiB,4 MiB} untampered; for every configuration every substitution of each act's clear-text version byte by 0..3 in all combinations across acts; every single-bit flip of every handshake byte for v2 XX and v2 KK (thorough: also v0 and v0-1 XX). Sampled: random multi-byte rewrites, truncations, extensions, duplications and replays of acts. Outcomes are classified {both fail, one completes, both complete}; only 'both complete' is constrained: complementary traffic keys, equal version, each side's remote static = the other's true key, initiator's auth data = responder's payload, remote key published on both sides or neither. The agreement oracle also compares rotation salts and record counters; callbacks-refuse enumerates an erroring onRemoteStatic / onAuthData callback on either side for every configuration." + SIG_RULE,
    "assumptions": ["white-box comparison of the two Machines' cipher keys and versions"],
    "components": NOISE_COMPONENTS,
    "expected_probes": ["c04.callback-refused", "c04.both-complete", "c04.both-fail", "c04.flip-applied"],
    "level_text": "Fault enumeration: the finite MITM edit sets named in the rule are enumerated completely against real two-party handshakes under the simulator; further rewrites are seeded samples.",
    "level_note": LEVEL_NOTE_NOISE,
}

PROPS["C08"] = {
    "pkgs": ["mailbox"],
    "level": "exploration",
    "quick_budget": 60, "thorough_budget": 1200,
    "rule": "After a real XX or KK handshake, 0..5000 records per direction (key rotation every 500 records, so up to 10 rotations), the order of {A writes, B writes, B reads, A reads} drawn from the tape, record sizes 0, 1, 16..215 and 65535, equal plaintext throughout or distinct ones. Oracles: the (key, nonce) state before each record is new for that direction and advances; ciphertext records are pairwise distinct; every record decrypts to exactly what was written; no 16-byte window of the plaintexts or of the auth payload occurs in the recorded wire bytes (handshake included). (key, nonce) pairs and ciphertexts are remembered across both directions of a session." + SIG_RULE,
    "assumptions": ["(key, nonce) freshness is observed white-box at record granularity (before/after WriteMessage); a reuse inside a record would still show as a state that does not advance or as a decryption failure"],
    "components": NOISE_COMPONENTS,
    "expected_probes": ["c08.many-rotations", "c08.records"],
    "level_text": EXPL_TEXT + " This property has little scheduling in it; the simulator makes long histories cheap.",
    "level_note": LEVEL_NOTE_NOISE,
}

PROPS["C02"] = {
    "pkgs": ["mailbox"],
    "level": "fault_enumeration",
    "quick_budget": 70, "thorough_budget": 1800,
    "rule": "Enumerated: every single-bit flip of one full wire record (18-byte encrypted header, body, 16-byte MAC) for body sizes {0,1,17,65535} at record index {0,499,500} (around the first key rotation) in XX and KK sessions, each flip against a fresh copy of the reader's cipher state (quick: body bits of the 65535-byte record every 101st bit; thorough: all). Sampled: sessions exposed through Machine.ReadMessage/WriteMessage+Flush, NoiseGrpcConn or NoiseConn, 1..12 and 0..7 records per direction (sizes 0..2000, occasionally 65535), scripts of 1-4 edits from {drop, duplicate, swap, replay-earlier, reflect-from-other-direction, truncate, inject, bit flip, splice} at record boundaries and mid-record offsets applied to one or both directions; readers run as tasks until the first error and four more attempts. Oracle: returned plaintext is a byte prefix of what was written; no successful read after the first error; untouched streams are delivered completely. Readers use either one large buffer per Read or small and varying ones (a record handed out over several Reads); slices returned by ReadMessage are kept and compared again at the end of the run. stall-inside-record (enumerated): the stream is withheld at every byte offset inside a 2-byte record until the reader's deadline has fired, then delivered; record contents 0, 1, 2, 3, 18, 300 (what a parser that lost its place would read as lengths), three APIs, XX and KK." + SIG_RULE,
    "assumptions": ["the adversary works on the ciphertext produced by the authentic writer (it holds no keys)"],
    "components": NOISE_COMPONENTS,
    "expected_probes": ["c02.bit-flips", "c02.intact-prefix-delivered"],
    "level_text": "Fault enumeration: all single-bit corruptions of a record are enumerated against the real AEAD stream code at and around the key-rotation boundary; multi-edit adversary scripts are seeded samples.",
    "level_note": LEVEL_NOTE_NOISE,
}

PROPS["C16"] = {
    "pkgs": ["mailbox"],
    "level": "fault_enumeration",
    "quick_budget": 70, "thorough_budget": 1500,
    "rule": "Enumerated: XX handshakes at versions 0, 1, 2 and 0..2 and the KK handshake, over a stream whose every Read returns at most g bytes for every g in 1..40 plus a random granularity, compared with the unfragmented handshake of the same keys; for payload sizes {0,1,15,16,17,100} every two-way and every three-way partition of the record's wire bytes (18 + n + 16) into partial writes each ended by a timeout error, plus 200 random finer partitions per size. Sampled: record exchange through NoiseGrpcConn / NoiseConn / Machine over fragmenting readers, payloads 0..65535. Oracles: same outcome, keys, version and auth data as unfragmented; successive Flush calls emit exactly the record once, their counts sum to the payload length, WriteMessage returns ErrMessageNotFlushed while bytes are pending, the peer reads the payload." + SIG_RULE,
    "assumptions": ["a partial write is modelled as io.Writer.Write returning n < len(p) with an error whose Timeout() is true, as net.Conn does"],
    "components": NOISE_COMPONENTS,
    "expected_probes": ["c16.partitions"],
    "level_text": "Fault enumeration: all read granularities 1..40 for each handshake kind and all two- and three-way write partitions of a record are enumerated completely; finer partitions and long exchanges are seeded samples.",
    "level_note": LEVEL_NOTE_NOISE,
}

PROPS["C15"] = {
    "pkgs": ["mailbox"],
    "level": "exploration",
    "quick_budget": 70, "thorough_budget": 1500,
    "rule": "After a real handshake, NoiseGrpcConn (over a ProxyConn stub) or NoiseConn (over a stream that may fragment reads) carries 1..10 writes per direction with sizes 0, 1, <100, around 32 KiB, 65535, arbitrary up to 65535 and (TCP variant) up to 300 KiB, uni- or bidirectional; the reader task draws every buffer size from {1, 1..16, 1..1024, 32 KiB-2..+2, 1..70000, 100 KiB, 5, 4096}; writer and reader are separate tasks. Enumerated: writes of 65535/65536/65537/200000 bytes on both variants followed by a small write. Oracles: 0 <= n <= len(buf) for every Read; bytes read are a prefix of, and finally equal to, bytes written; no io.EOF inside an intact stream; a Write returns len(p) or an error." + SIG_RULE,
    "assumptions": ["the plain connKit (ClientConn/ServerConn) variant is exercised by the C05 end-to-end scenarios, which apply the same n <= len(buf) and byte-equality oracles"],
    "components": NOISE_COMPONENTS,
    "expected_probes": ["c15.reads", "c15.oversize-rejected", "c15.oversize-chunked-or-fits"],
    "level_text": EXPL_TEXT,
    "level_note": LEVEL_NOTE_NOISE,
}

STACK_COMPONENTS = {
    "mailbox: server.go (Server.Accept/Close), client.go (Client.Dial), server_conn.go, client_conn.go, grpc transport of client_transport.go, interface.go (connKit, MsgData), grpc_noise_conn.go, noise.go, conndata.go": "real code, instrumented copy of the working tree",
    "gbn (all files)": "real code, instrumented copy of the working tree",
    "hashmail relay (aperture)": "stub written from the hashmail API contract: named mailboxes with FIFO buffers, one reader / one writer per box, 'stream not found', 'stream occupied', AlreadyExists; seeded faults",
    "gRPC/HTTP2 above the net.Conn": "stub: application loops Accept->ServerHandshake->serve->Close and Dial->ClientHandshake->transfer->Close with retry, writer and reader tasks per connection",
    "websocket transport, TCP listener, grpc.Dial in NewServer/NewGrpcClient": "not executed (Server and Client are constructed in-package around the stub relay)",
    "clock, timers, scheduling": "simulated",
}
PROPS["C05"] = {
    "pkgs": ["mailbox"],
    "level": "exploration",
    "quick_budget": 80, "thorough_budget": 2400,
    "rule": "Each run builds the whole stack (Server/Client, ServerConn/ClientConn with their retry loops, GBN with the production timeouts, NoiseGrpcConn at max version 0/1/2, auth payload 0..3000 B) over the stub relay. relay-faults: until a tape-chosen instant (5..64 s) the relay drops/delays messages, fails Recv/Send calls (killing the stream), fails NewCipherBox/RecvStream/SendStream, blocks Send (full mailbox); then it is reliable. Each connection instance writes a self-describing pseudo-random stream (plan up to 120 kB, 1 in 8 runs up to 1 MiB) in writes of 0..65535 bytes and verifies the peer's stream byte by byte; the client closes a completed connection and re-dials. Oracles: stream equality online; at heal + 20 virtual minutes a connection opened after the last fault has completed its transfer (otherwise 'silent stall' if nothing at all happened in the last third, 'no completion' if retries keep failing); every message the relay saw decodes as a GBN packet and no DATA payload contains a 16-byte window of application plaintext or of the auth payload. One run in four uses bounded mailboxes (a Send blocks while the mailbox holds 3 or 16 messages, as the real relay's pipe-backed mailbox pushes back); one run in five has a client application that gives its first connections up in the middle of the transfer (stops reading, closes). The relay stub's send side is asynchronous (gRPC-like) in two runs of three." + SIG_RULE,
    "assumptions": ["the relay is a model of aperture's hashmail server; behaviour of the real server that the model lacks is not covered", "'completes' is required of some connection opened after the last fault; earlier connections may fail visibly"],
    "components": STACK_COMPONENTS,
    "expected_probes": ["stack.abandoned-mid-transfer", "c05.transfer-complete-after-heal", "c05.reconnected", "c05.connection-failed-visibly"],
    "level_text": EXPL_TEXT,
    "level_note": "Trusts the Go runtime, testing/synctest, the instrumenter's rewrite and the relay model; scrypt runs at the repo's rpctest cost parameter.",
}

PROPS["C11"] = {
    "pkgs": ["mailbox"],
    "level": "exploration",
    "quick_budget": 80, "thorough_budget": 2400,
    "rule": "Each run drives one session through 2..5 rounds; a round waits until a connection has carried a complete transfer in both directions, then the tape picks the next event (close by client, by server, by both at the same instant, or a relay outage of 3..22 s that fails every stream operation) and its delay. The application behaves as gRPC does: Accept is re-entered immediately, Dial is sometimes called while a connection is open. Max handshake version 2 (pairing, rendezvous switch) in 4 of 5 runs, 1 otherwise. Oracles: at every Accept/Dial return the previous connection's Done() is closed; after each event a new connection completes a transfer within 4 virtual minutes; once both onRemoteStatic callbacks fired, later connections use equal, key-derived (not passphrase-derived) session ids with pairwise-crossed stream ids seen by the relay and the KK pattern; at the end a second client with a fresh key and only the passphrase must not complete a handshake. Histories also contain relay-restart events (every mailbox and queued message lost, optionally right after one side closed) and, in a third of the runs, failing DelCipherBox calls. The relay stub's send side is asynchronous (gRPC-like) in two runs of three." + SIG_RULE,
    "assumptions": ["'a first pairing in which static keys were exchanged' = both onRemoteStatic callbacks fired; a half-pairing (initiator stored the key, responder never saw act 3) is counted by a probe, see DESIGN.md", "the relay model frees a box's reader when its context is cancelled"],
    "components": STACK_COMPONENTS,
    "expected_probes": ["c11.handout-after-previous-closed", "c11.reconnected-on-key-derived-rendezvous", "c11.early-dial"],
    "level_text": EXPL_TEXT,
    "level_note": "Trusts the Go runtime, testing/synctest, the instrumenter's rewrite and the relay model.",
}

# Properties that are pure functions of their input: no schedule, clock, fault
# or interleaving enters them, so deterministic simulation has nothing to decide.
NOT_APPLICABLE = {
    "C17": "pure functions (mnemonic codec, SID derivation): no schedule, clock, fault or multi-party behaviour for a simulator to control; the one multi-party consequence (stream-id wiring of client and server) is observed by the stub relay in the C05/C11 runs",
    "C19": "pure functions (Serialize/Deserialize round trips): input enumeration, not simulation; the simulated transports decode every packet they carry but no claim is made from that",
}

# Properties not (yet) claimed by a check in this tree.
UNCLAIMED = {
    "C%02d" % i: "check not built yet in this tree (work in progress, see DESIGN.md)" for i in range(1, 21) if i not in (17, 19)
}
