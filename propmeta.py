# Per-property metadata used by ./check: which harness packages to build, the
# evidence level, the generation rule text, assumptions and the real/stub table.

GBN_COMPONENTS = {
    "gbn (all files)": "real code, instrumented copy of the working tree",
    "transport under GBN": "stub: seeded per-direction FIFO links (drop / adjacent duplicate / delay / blackout / stall)",
    "clock, timers, goroutine scheduling, select choice": "simulated (testing/synctest virtual clock + simrt scheduler driven by the choice tape)",
}

SIG_RULE = (" A run is non-trivial if it made protocol progress and had at least one context switch to a different task or one fired fault;"
            " distinct = distinct schedule-and-fault signatures (hash of the sequence of non-default scheduling decisions (task, site) and of fired faults), counted by the machinery.")

PROPS = {
    "C01": {
        "pkgs": ["gbn"],
        "level": "exploration",
        "quick_budget": 50, "thorough_budget": 1500,
        "rule": "Seeded simulated runs of a real client+server GoBackNConn pair (handshake included) with concurrent traffic in both directions; per run the tape draws N (1..254, biased to 1,2,3,20,64,253,254), chunking, static/adaptive timeouts, keepalive, per-direction drop/dup/delay rates, message counts and sizes, and every scheduling decision." + SIG_RULE,
        "assumptions": ["transport keeps per-direction order (property precondition)", "harness oracle regenerates each expected message from (direction, index, size)"],
        "components": GBN_COMPONENTS,
        "expected_probes": ["c01.complete", "c01.seq-wrapped"],
        "level_text": "Seeded search over schedules and fault sequences of the real Go-Back-N code in virtual time: every run is an exactly repeatable execution, thousands (quick) to >100k (thorough) of them with swarm-varied window sizes, timeouts, fault mixes and workloads; a violation is minimised and replayed in a fresh process. Evidence, not proof.",
        "level_note": "Trusts the Go runtime, testing/synctest's virtual clock and the instrumenter's rewrite (channel ops, select, locks, spawns, sleeps are the scheduling points); the transport is a stub that keeps per-direction order as the property presupposes.",
    },
}

# Properties that are pure functions of their input: no schedule, clock, fault
# or interleaving enters them, so deterministic simulation has nothing to decide.
NOT_APPLICABLE = {
    "C17": "pure functions (mnemonic codec, SID derivation): no schedule, clock, fault or multi-party behaviour for a simulator to control; the one multi-party consequence (stream-id wiring of client and server) is observed by the stub relay in the C05/C11 runs",
    "C19": "pure functions (Serialize/Deserialize round trips): input enumeration, not simulation; the simulated transports decode every packet they carry but no claim is made from that",
}

# Properties not (yet) claimed by a check in this tree.
UNCLAIMED = {
    "C%02d" % i: "check not built yet in this tree (work in progress, see DESIGN.md)" for i in range(1, 21) if i not in (17, 19)
}
