# Per-property metadata used by ./check: which harness packages to build, the
# evidence level, the generation rule text, assumptions and the real/stub table.

GBN_COMPONENTS = {
    "gbn (all files)": "real code, instrumented copy of the working tree",
    "transport under GBN": "stub: seeded per-direction FIFO links (drop / adjacent duplicate / delay / blackout / stall)",
    "clock, timers, goroutine scheduling, select choice": "simulated (testing/synctest virtual clock + simrt scheduler driven by the choice tape)",
}

SIG_RULE = (" A run is non-trivial if it made protocol progress and had at least one context switch to a different task or one fired fault;"
            " distinct = distinct schedule-and-fault signatures (hash of the sequence of non-default scheduling decisions (task, site) and of fired faults), counted by the machinery.")

PROPS = {
    "C01": {
        "pkgs": ["gbn"],
        "level": "exploration",
        "quick_budget": 50, "thorough_budget": 1500,
        "rule": "Seeded simulated runs of a real client+server GoBackNConn pair (handshake included) with concurrent traffic in both directions; per run the tape draws N (1..254, biased to 1,2,3,20,64,253,254), chunking, static/adaptive timeouts, keepalive, per-direction drop/dup/delay rates, message counts and sizes, and every scheduling decision." + SIG_RULE,
        "assumptions": ["transport keeps per-direction order (property precondition)", "harness oracle regenerates each expected message from (direction, index, size)"],
        "components": GBN_COMPONENTS,
        "expected_probes": ["c01.complete", "c01.seq-wrapped"],
    },
}
