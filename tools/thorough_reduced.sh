#!/bin/sh
# reduced-budget thorough pass on the final harness
for pb in C05:1200 C11:900 C12:900 C13:900 C01:600 C09:600 C14:600 C06:600 C07:600 C18:600 C10:300 C20:300 C02:300 C03:300 C04:300 C08:300 C15:300 C16:300; do
  p=${pb%%:*}; b=${pb##*:}
  out=$(./check $p --tier thorough --budget $b 2>&1); code=$?
  echo "$p exit=$code $(echo "$out" | grep -c '^KNOWN-FINDING') known | $(echo "$out" | grep '^OK\|^VIOLATION\|^check:' | head -3 | tr '\n' ' ')"
  echo "$out" | grep "oracle=" | head -4
done
