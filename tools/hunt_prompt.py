import json,sys
pid=sys.argv[1]
p=json.load(open('/tmp/props/%s.json'%pid))
prop={k:p[k] for k in ('id','title','statement','quantifier','anchors')}
KNOWN=[
 "gbn.Deserialize panicked on a 3-byte DATA packet (fixed)",
 "server accepted SYN with N=0 or N=255 (fixed)",
 "pongTicker not stopped in Close (fixed)",
 "data races / double close in IntervalAwareForceTicker.Reset (fixed with resetMtx)",
 "NoiseGrpcConn.Read returned n > len(buf) for small buffers (fixed)",
 "handshake parsing used Read instead of io.ReadFull (fixed)",
 "processACK/processNACK accepted sequence numbers >= s (fixed)",
 "resend ticker was restarted by every received packet, so tail loss was never retransmitted when resend timeout >= peer ping interval (fixed: restart only on a valid ACK)",
 "with a full send window the send loop ignored ping/pong tickers (dead peer never detected); pong timer restarted by every ping (fixed; the pong timer is now started in the full-window wait too and not restarted while active)",
 "Send of an empty payload with chunking enabled sent nothing (fixed)",
 "Recv timeout between two chunks dropped the chunks already taken (fixed with recvBuf)",
 "Send timeout after some chunks were queued leaves orphan chunks that are merged with the retried Send (known, not fixed)",
 "version 0 handshake with an auth payload > 498 bytes garbled it (fixed: responder refuses)",
 "the clear-text version bytes of the handshake acts are not bound to the transcript: a MITM can make client and server finish at different versions (known, not fixed)",
 "a record failing authentication did not make the receive stream fail for good (fixed)",
 "NoiseConn.Read / connKit.Read returned io.EOF for an empty record (fixed)",
 "after the pairing connection is ended by the server side, Server.Accept deletes the old mailboxes and the client keeps retrying 'stream not found' forever inside the GBN callbacks, which also starves its keepalive (known, not fixed)",
 "a stale SYN(N') of an earlier connection queued ahead of the new one can make the server adopt N' (known, not fixed; no connection nonce on the wire)",
 "GoBackNConn.Close blocked while the transport's send callback held a mutex in a retry loop (fixed: FIN send awaited only up to its deadline)",
 "NewServerConn/NewClientConn return (conn, nil) when their context is cancelled mid-handshake (known quirk)",
 "GoBackNConn.Send kept the caller's slice (buffer reuse after Send corrupted retransmissions) (fixed: Send copies)",
 "NoiseGrpcConn.nextMsg survived into the next connection of the same credentials object (fixed)",
 "keepalive on a full send window: pong timer started without a probe / kept running after the window freed (fixed: the queue is resent as the probe)",
 "bounded relay mailboxes with blocking Send: GBN receive loops block sending ACKs, both directions deadlock, keepalive starved (known, not fixed)",
 "a surplus recvNext token leaves a stale handshake reader goroutine that steals the first packet of the data phase, e.g. the peer's FIN (known, not fixed)",
 "late SYN / SYNACK packets are fatal in the data phase ('received unexpected message') (known weakness)",
 "half-pairing: the initiator stores the responder's key as soon as act 3 is queued; if the responder never reads act 3 the two sides wait at different rendezvous forever (known)",
 "a lagging application blocks the GBN receive loop (FIN / pongs behind the backlog are not seen) (known, outside the properties)",
 "a NACK for the top of the window / an ACK processed just before the send loop waits did not wake a Send blocked on a full window (fixed: signal on NACK(top), one-slot receivedACKSignal)",
 "a read error inside a Noise record left the stream mid-record and a body could be taken for a header (fixed: such an error is sticky)",
 "the timeout manager was told about a resend only after the transport send returned, so the ACK of the resent copy could be used as an RTT sample (fixed)",
 "Close is abortive: acknowledged-but-unread data is dropped when the FIN is processed; Write followed at once by Close may send nothing (known, outside the properties)",
 "concurrent Send calls with payload splitting interleave their chunks (known, splitting unused by mailbox)",
 "a replayed act 1 makes the KK responder complete its side of the handshake (no key confirmation in two-message KK) (known protocol limitation)",
 "reads are not resumable after a timeout inside a record (known, by design)",
 "timeout arithmetic overflows for absurd option values (known)",
 "over the gRPC hashmail streams the FIN of Close was dropped by the stream reset that follows it (fixed: the send stream is half-closed and flushed after a FIN)",
 "packet reordering breaks GBN (sequence space n+1); the transport is FIFO by assumption (out of scope)",
 "during a retransmission's sync wait (up to 3x resend timeout) the send loop admits no data and serves no keepalive tick (known, by design)",
 "syncer.initResendUpTo overflows uint8 for windows >= 128 (known, timing only)",
 "first transmissions were reported to the timeout manager after the write (stale send times paired with later ACKs) (fixed)",
 "start() added the send loop to the wait group after starting the receive loop (WaitGroup Add concurrent with Wait) (fixed: Add(2))",
 "the server's wait for the SYN did not listen on errChan (fixed)",
 "non-final DATA chunks from the relay are buffered without limit (known, not fixed)",
 "a lost SYNACK leaves a silent, keepalive-less client in the data phase and the server waiting (known, by design)",
 "the aperture relay holds back messages whose framed size is a multiple of 4096 bytes (defect of the relay, outside this repository)",
 "connKit deadline setters write two unused fields without a lock (known, harmless)",
 "NewClientConn accepted a window of 0 and then never returned (fixed)",
 "the full-window keepalive probe was skipped by the resend throttle (handshake timeout) (fixed: the probe forces the resend)",
 "mailbox.Server.Close (the listener) panics when called twice; ServerConn.Stop waits without deadline for DelCipherBox (known, outside the connection-level properties)",
 "GBN packets are unauthenticated: a relay that forges ACKs can make a sender drop undelivered data (out of scope)",
]
print(f"""You are given a git worktree of a Go repository at /tmp/wt-{pid} (lightninglabs/lightning-node-connect: a Noise/SPAKE2 encrypted gRPC transport tunnelled over a mailbox relay, with its own Go-Back-N reliable-delivery protocol; the relevant Go modules are gbn/ and mailbox/). Work ONLY inside /tmp/wt-{pid}. Do not read or touch /verif, /repo, /root/spike or any other /tmp/wt-* directory. There is no network. Use the default environment for go commands (do NOT set GOSUMDB=off or GOPROXY=off). Existing tests: `cd gbn && go test -mod=mod -vet=off -count=1 ./...` (about 20 s) and `cd mailbox && go test -mod=mod -vet=off -count=1 ./...` (about 5 s).

This semantic property is supposed to hold for the code base AS IT IS (do not modify the non-test sources):

{json.dumps(prop, indent=1)}

Two earlier reviewers have already audited this property; the KNOWN list below contains what was found. Look where they are least likely to have looked: unusual configurations and option combinations, the interaction between the mailbox layer (retry loops, stream re-creation, status handling) and GBN, error paths, shutdown and restart paths, boundary values, and multi-step histories. The repository's itest/ package contains an in-process aperture hashmail relay (real gRPC streams) that you may use to check mailbox behaviour against the real relay instead of a fake - for this pass, PREFER the real relay (and a freezable / lossy TCP proxy in front of it if you need faults): the earlier reviewers mostly used fakes.

TASK: audit the UNMODIFIED code against this property and try to find GENUINE violations: a concrete input, configuration, schedule / interleaving, timer coincidence, or fault sequence (packet loss, duplication, delay, relay stream errors, relay restart, slow or blocked callbacks, cancelled contexts, slow application, ...) permitted by the property's quantifier under which the real code breaks the property. Think like a reviewer hunting for protocol and concurrency bugs: read the anchored code closely, enumerate the states of the loops and timers, look at every error path, every place where two goroutines touch the same state, every wrap-around, every 'this cannot happen' assumption.

These defects are ALREADY KNOWN (found earlier; most are already fixed in this tree) - do not report them again or close variants of them:
""" + "".join(" - "+k+"\n" for k in KNOWN) + f"""
For every genuine violation you find (aim for the one or two you are most confident in; quality over quantity) leave in the worktree root /tmp/wt-{pid}:
 - FINDING{{i}}_test.go.txt : a Go test file (first comment line: which package directory and file name to copy it to, and the exact `go test -run ...` command) that demonstrates the violation on the UNMODIFIED tree, i.e. it FAILS (or hangs into its own watchdog, or panics) because the property is violated. It may use package internals, fake transports / fake hashmail clients, scripted packet schedules. It should be deterministic or at least very reliable; run it at least 3 times.
 - FINDING{{i}}.md : the exact scenario (sequence of events), the code path with file:line references, why it violates the property as stated (quote the clause), the output you observed, and - if you see one - the smallest plausible fix.
If after a careful audit you find no genuine violation, write NOFINDING.md listing the scenarios you examined and why each one turned out to be fine, plus the places you consider most fragile. Do not invent violations: a demo that passes is not a finding, and a behaviour the property does not forbid is not a finding. Remove any test file you copied into a package dir when you are done (deliverables in the worktree root stay). Finish with a brief summary.""")
