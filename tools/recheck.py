#!/usr/bin/env python3
"""recheck.py <seeded-id> [PROP ...]: applies /verif/seeded/<id>/patch.diff to a fresh worktree of /repo, runs the quick
tier of the given checks (default: the property it breaks) against it, updates meta.json."""
import json, os, subprocess, sys, time
VERIF = os.path.dirname(os.path.dirname(os.path.abspath(__file__)))
def sh(cmd, **kw):
    r = subprocess.run(cmd, shell=isinstance(cmd, str), stdout=subprocess.PIPE, stderr=subprocess.STDOUT, text=True, **kw)
    return r.returncode, r.stdout
sid = sys.argv[1]
d = os.path.join(VERIF, "seeded", sid)
meta = json.load(open(os.path.join(d, "meta.json")))
props = sys.argv[2:] or [meta["breaks_property"]]
sw = "/tmp/rw-" + sid
sh("git -C /repo worktree remove --force %s" % sw)
sh("git -C /repo worktree add -f %s HEAD -q" % sw)
try:
    rc, out = sh("git apply %s" % os.path.join(d, "patch.diff"), cwd=sw)
    if rc != 0:
        print(sid, "patch does not apply", out[:200]); sys.exit(1)
    res = meta.get("checks_quick", {})
    for p in props:
        t0 = time.time()
        rcc, oc = sh([os.path.join(VERIF, "check"), p, "--no-evidence"], env=dict(os.environ, VERIF_REPO=sw))
        orc = [l.strip() for l in oc.splitlines() if l.strip().startswith("oracle=")]
        res[p] = {"exit": rcc, "first_oracles": orc[:3], "wall_s": round(time.time() - t0, 1)}
        print("%s %s exit=%d %s" % (sid, p, rcc, (orc or [""])[0][:110]), flush=True)
    meta["checks_quick"] = res
    meta["detected_by"] = sorted(p for p, r in res.items() if r["exit"] == 1)
    json.dump(meta, open(os.path.join(d, "meta.json"), "w"), indent=1)
finally:
    sh("git -C /repo worktree remove --force %s" % sw)
