#!/usr/bin/env python3
"""Confirms a sub-agent mutant (compiles, existing suites pass, demo fails with / passes without), runs the
/verif checks against it and files it under /verif/seeded/<id>/.
usage: seeded.py <agent-worktree> <PROP> <i> [extra props to run ...]"""
import json, os, re, shutil, subprocess, sys, time

VERIF = os.path.dirname(os.path.dirname(os.path.abspath(__file__)))

def sh(cmd, cwd=None, env=None, timeout=3600):
    r = subprocess.run(cmd, cwd=cwd, env=env, shell=isinstance(cmd, str), stdout=subprocess.PIPE, stderr=subprocess.STDOUT, text=True, timeout=timeout)
    return r.returncode, r.stdout

def main():
    wt, prop, i = sys.argv[1], sys.argv[2], sys.argv[3]
    extra = sys.argv[4:]
    rnd = os.environ.get("ROUND", "")
    sid = "%s-%sm%s" % (prop, ("r" + rnd) if rnd else "", i)
    diff = os.path.join(wt, "MUTANT%s.diff" % i)
    demo = os.path.join(wt, "MUTANT%s_demo_test.go.txt" % i)
    md = os.path.join(wt, "MUTANT%s.md" % i)
    if not os.path.exists(diff):
        print(sid, "no diff"); return
    sw = "/tmp/sw-" + sid
    sh("git -C /repo worktree remove --force %s" % sw)
    rc, out = sh("git -C /repo worktree add -f %s HEAD -q" % sw)
    meta = {"id": sid, "breaks_property": prop, "source": "independent sub-agent given only the property text and a scratch worktree", "ran": []}
    try:
        demo_txt = open(demo).read() if os.path.exists(demo) else ""
        m = re.search(r"((?:gbn|mailbox)/[\w./-]+_test\.go)", demo_txt[:1500])
        mc = re.search(r"(go test [^\n`]*-run[ =][^\n`]+)", demo_txt[:2500])
        demo_path = m.group(1) if m else None
        if demo_path is None:
            m2 = re.search(r"into\s+`?((?:gbn|mailbox))/?`?\s+as\s+`?([\w.-]+_test\.go)", demo_txt[:1500])
            if m2:
                demo_path = m2.group(1) + "/" + m2.group(2)
        demo_cmd = mc.group(1).strip() if mc else None
        if demo_cmd:
            demo_cmd = re.sub(r"^\s*cd \S+ && ", "", demo_cmd)
        pkgdir = os.path.join(sw, demo_path.split("/")[0]) if demo_path else None
        def run_demo():
            if not demo_path or not demo_cmd:
                return None, "no demo path/command found"
            shutil.copy(demo, os.path.join(sw, demo_path))
            cmd = demo_cmd
            if "-count" not in cmd:
                cmd += " -count=1"
            rc, out = sh(cmd, cwd=pkgdir, timeout=1200)
            os.remove(os.path.join(sw, demo_path))
            return rc, out[-1500:]
        # without the mutant
        rc0, out0 = run_demo()
        rc, out = sh("git apply %s" % diff, cwd=sw)
        if rc != 0:
            print(sid, "diff does not apply:", out[:300]); meta["applies"] = False
            return
        rcb1, ob1 = sh("go build ./...", cwd=os.path.join(sw, "gbn"))
        rcb2, ob2 = sh("go build ./...", cwd=os.path.join(sw, "mailbox"))
        meta["compiles"] = rcb1 == 0 and rcb2 == 0
        rct1, ot1 = sh("go test -mod=mod -vet=off -count=1 ./...", cwd=os.path.join(sw, "gbn"))
        rct2, ot2 = sh("go test -mod=mod -vet=off -count=1 ./...", cwd=os.path.join(sw, "mailbox"))
        meta["existing_tests_pass_with_mutant"] = rct1 == 0 and rct2 == 0
        rc1, out1 = run_demo()
        meta["demo"] = {"file": demo_path, "cmd": demo_cmd, "passes_without_mutant": rc0 == 0, "fails_with_mutant": rc1 not in (0, None)}
        meta["ran"].append("go build ./... ; go test -mod=mod -vet=off -count=1 ./... in gbn and mailbox with the mutant: gbn rc=%s mailbox rc=%s" % (rct1, rct2))
        meta["ran"].append("demo without mutant rc=%s, with mutant rc=%s" % (rc0, rc1))
        # our checks
        res = {}
        for p in [prop] + extra:
            t0 = time.time()
            rcc, oc = sh([os.path.join(VERIF, "check"), p, "--no-evidence"], env=dict(os.environ, VERIF_REPO=sw), timeout=3600)
            orc = [l.strip() for l in oc.splitlines() if l.strip().startswith("oracle=")]
            res[p] = {"exit": rcc, "first_oracles": orc[:3], "wall_s": round(time.time() - t0, 1)}
        meta["checks_quick"] = res
        meta["detected_by"] = [p for p, r in res.items() if r["exit"] == 1]
        d = os.path.join(VERIF, "seeded", sid)
        os.makedirs(d, exist_ok=True)
        shutil.copy(diff, os.path.join(d, "patch.diff"))
        if os.path.exists(demo):
            shutil.copy(demo, os.path.join(d, "demo_test.go.txt"))
        if os.path.exists(md):
            shutil.copy(md, os.path.join(d, "notes.md"))
            txt = open(md).read()
            meta["needs_to_manifest"] = txt[:1500]
        json.dump(meta, open(os.path.join(d, "meta.json"), "w"), indent=1)
        print("%s compiles=%s suites_pass=%s demo(without=%s with=%s) checks=%s" % (sid, meta["compiles"], meta["existing_tests_pass_with_mutant"], rc0, rc1,
              {p: (r["exit"], (r["first_oracles"] or [""])[0][:60]) for p, r in res.items()}), flush=True)
    finally:
        sh("git -C /repo worktree remove --force %s" % sw)

main()
