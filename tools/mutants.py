#!/usr/bin/env python3
"""Deliberate breakage (DESIGN.md 9.2): applies small source edits to a scratch copy of /repo's gbn and mailbox
and runs the quick tier of the listed checks against it (VERIF_REPO). Usage: mutants.py [name-substring ...]"""
import os, shutil, subprocess, sys, tempfile, json, time

REPO = "/repo"
VERIF = os.path.dirname(os.path.dirname(os.path.abspath(__file__)))

M = [
 # name, file, old, new, properties expected to catch it
 ("s=n", "gbn/config.go", "\t\ts:              n + 1,", "\t\ts:              n,", ["C09", "C01"]),
 ("accept-any-seq", "gbn/gbn_conn.go", "\t\t\tswitch m.Seq == g.recvSeq {", "\t\t\tswitch m.Seq == g.recvSeq || m.Seq == g.recvSeq+1 {", ["C01"]),
 ("contains-off-by-one", "gbn/queue.go", "\tif seq < top || base <= seq {\n\t\treturn true\n\t}", "\tif seq <= top || base <= seq {\n\t\treturn true\n\t}", ["C09", "C01"]),
 ("nack-base-plus-one", "gbn/queue.go", "\tq.sequenceBase = seq\n\n\treturn true, bumped", "\tq.sequenceBase = (seq + 1) % q.cfg.s\n\n\treturn true, bumped", ["C01"]),
 ("resend-skips-first", "gbn/queue.go", "\tfor base != top {\n\t\tpacket := q.content[base]", "\tbase = (base + 1) % q.cfg.s\n\tfor base != top {\n\t\tpacket := q.content[base]", ["C06", "C01"]),
 ("ping-no-recvseq", "gbn/gbn_conn.go", "\t\t\t\tg.recvSeq = (g.recvSeq + 1) % g.cfg.s\n\n\t\t\t\t// If the packet was a ping", "\t\t\t\tif !m.IsPing {\n\t\t\t\t\tg.recvSeq = (g.recvSeq + 1) % g.cfg.s\n\t\t\t\t}\n\n\t\t\t\t// If the packet was a ping", ["C06", "C13", "C01"]),
 ("no-window-gate", "gbn/gbn_conn.go", "\t\t\tif g.sendQueue.size() < g.cfg.n {\n\t\t\t\tbreak\n\t\t\t}", "\t\t\tif g.sendQueue.size() <= g.cfg.n {\n\t\t\t\tbreak\n\t\t\t}", ["C09"]),
 ("no-resend-ticker-outer", "gbn/gbn_conn.go", "\t\tcase <-g.resendTicker.C:\n\t\t\tif err := resendQueue(); err != nil {\n\t\t\t\treturn err\n\t\t\t}\n\t\t\tcontinue\n", "", ["C06"]),
 ("pong-never-rearmed", "gbn/gbn_conn.go", "\t\t\tif !g.pongTicker.IsActive() {\n\t\t\t\tg.pongTicker.Reset()\n\t\t\t\tg.pongTicker.Resume()\n\t\t\t}\n\n\t\t\t// Also reset the ping timer.", "\t\t\t// Also reset the ping timer.", ["C13"]),
 ("sync-wait-no-timeout", "gbn/syncer.go", "\tcase <-time.After(\n\t\tc.timeoutManager.GetResendTimeout() * awaitingTimeoutMultiplier,\n\t):\n\t\tc.log.Debugf(\"Timed out while waiting for sync\")\n", "", ["C06", "C13"]),
 ("nack-backoff-forever", "gbn/gbn_conn.go", "\t\t\t\trecentlySent := sinceSent < timeout*2", "\t\t\t\trecentlySent := sinceSent < timeout*2 || !lastNackTime.IsZero()", ["C06"]),
 ("server-ignores-synack-after-restart", "gbn/gbn_server.go", "\t\t\tif resent {\n\t\t\t\tg.log.Tracef(\"Received %T after restarting \"+", "\t\t\tif false {\n\t\t\t\tg.log.Tracef(\"Received %T after restarting \"+", ["C10"]),
 ("client-skips-n-check", "gbn/gbn_client.go", "\tif respSYN.N != g.cfg.n {\n\t\treturn io.EOF\n\t}", "\t_ = io.EOF", ["C10"]),
 ("close-without-cancel", "gbn/gbn_conn.go", "\t\tg.cancel()\n\n\t\tg.sendQueue.stop()", "\t\tg.sendQueue.stop()", ["C12"]),
 ("close-no-queue-stop", "gbn/gbn_conn.go", "\t\tg.cancel()\n\n\t\tg.sendQueue.stop()", "\t\tg.cancel()", ["C12"]),
 ("no-fin", "gbn/gbn_conn.go", "\t\t\terr := g.sendPacket(ctxc, &PacketFIN{}, false)\n\t\t\tif err != nil {\n\t\t\t\tg.log.Errorf(\"Error sending FIN: %v\", err)\n\t\t\t}", "\t\t\t_ = ctxc", ["C12"]),
 ("final-chunk-every-chunk", "gbn/gbn_conn.go", "\t\t\tpacket.Payload = data[sentBytes : sentBytes+maxChunk]\n\t\t\tsentBytes += maxChunk", "\t\t\tpacket.Payload = data[sentBytes : sentBytes+maxChunk]\n\t\t\tsentBytes += maxChunk\n\t\t\tpacket.FinalChunk = true", ["C14"]),
 ("split-lt", "gbn/gbn_conn.go", "\t\tif remainingBytes <= maxChunk {", "\t\tif remainingBytes < maxChunk {", ["C14"]),
 ("nonce-not-incremented-on-failed-decrypt", "mailbox/noise.go", "\tdefer func() {\n\t\tc.nonce++\n\n\t\tif c.nonce == keyRotationInterval {\n\t\t\tc.rotateKey()\n\t\t}\n\t}()\n\n\tvar nonce [12]byte\n\tbinary.LittleEndian.PutUint64(nonce[4:], c.nonce)\n\n\treturn c.cipher.Open(", "\tvar nonce [12]byte\n\tbinary.LittleEndian.PutUint64(nonce[4:], c.nonce)\n\tc.nonce++\n\tif c.nonce == keyRotationInterval+1 {\n\t\tc.rotateKey()\n\t}\n\n\treturn c.cipher.Open(", ["C08", "C02"]),
 ("same-key-both-directions", "mailbox/noise.go", "\t\t_, _ = h.Read(recvKey[:])\n\t\tb.recvCipher = cipherState{}\n\t\tb.recvCipher.InitializeKeyWithSalt(b.chainingKey, recvKey)\n\t} else {", "\t\trecvKey = sendKey\n\t\tb.recvCipher = cipherState{}\n\t\tb.recvCipher.InitializeKeyWithSalt(b.chainingKey, recvKey)\n\t} else {", ["C02", "C04", "C08"]),
 ("skip-act1-payload-mac", "mailbox/noise.go", "\t\tauthData, err := h.DecryptAndHash(cipherText)\n\t\tif err != nil {\n\t\t\treturn err\n\t\t}\n\n\t\tif mp.ActNum == 2 {", "\t\tauthData, err := h.DecryptAndHash(cipherText)\n\t\tif err != nil && mp.ActNum != act1 {\n\t\t\treturn err\n\t\t}\n\n\t\tif mp.ActNum == 2 {", ["C03"]),
 ("mix-masked-ephemeral", "mailbox/noise.go", "\t\t\th.mixHash(e.PubKey().SerializeCompressed())\n\n\t\t\t// Now that we have our ephemeral, we'll apply the", "\t\t\t// Now that we have our ephemeral, we'll apply the", ["C03", "C04"]),
 ("accept-doesnt-wait-done", "mailbox/server.go", "\t\tcase <-s.mailboxConn.Done():\n\t\t\ts.log.Debugf(\"Accept: done with existing conn\")\n\t\t}", "\t\tcase <-s.mailboxConn.Done():\n\t\t\ts.log.Debugf(\"Accept: done with existing conn\")\n\t\tdefault:\n\t\t}", ["C11"]),
 ("sid-not-refreshed", "mailbox/client.go", "\tc.sid = sid\n\n\tif c.mailboxConn == nil {", "\tif c.mailboxConn == nil {", ["C11"]),
 ("retry-advances-payload", "mailbox/server_conn.go", "\t\t\tc.setStatus(ServerStatusNotConnected)\n\t\t\tc.createSendMailBox(ctx, retryWait)\n\t\t\tc.sendStreamMu.Unlock()\n\n\t\t\tcontinue", "\t\t\tc.setStatus(ServerStatusNotConnected)\n\t\t\tc.createSendMailBox(ctx, retryWait)\n\t\t\tc.sendStreamMu.Unlock()\n\n\t\t\treturn nil", ["C05"]),
 ("flush-forgets-header-remainder", "mailbox/noise.go", "\t\tn, err := w.Write(b.nextHeaderSend)\n\t\tb.nextHeaderSend = b.nextHeaderSend[n:]", "\t\tn, err := w.Write(b.nextHeaderSend)\n\t\tb.nextHeaderSend = nil\n\t\t_ = n", ["C16"]),
 ("remove-sentTimesMu", "gbn/timeout_manager.go", "\tcase *PacketData:\n\t\tm.sentTimesMu.Lock()\n\t\tdefer m.sentTimesMu.Unlock()\n", "\tcase *PacketData:\n", ["C18"]),
 ("drop-1s-floor", "gbn/timeout_manager.go", "\tif multipliedTimeout < minimumResendTimeout {", "\tif multipliedTimeout < minimumResendTimeout/2 {", ["C20"]),
 ("keep-sample-on-resend", "gbn/timeout_manager.go", "\t\t\tdelete(m.sentTimes, msg.Seq)\n\n\t\t\tm.resendBooster.Boost()", "\t\t\tm.resendBooster.Boost()", ["C20"]),
 ("no-boost-rate-limit", "gbn/timeout_manager.go", "\t\tif time.Since(b.lastBoost) < b.originalTimeout {\n\t\t\treturn\n\t\t}", "", ["C20"]),
 ("grpc-read-drops-remainder", "mailbox/grpc_noise_conn.go", "\t\tc.nextMsg = c.nextMsg[n:]\n\n\t\treturn n, nil", "\t\tc.nextMsg = nil\n\n\t\treturn n, nil", ["C15"]),
]

def main():
    sel = sys.argv[1:]
    results = []
    for name, f, old, new, props in M:
        if sel and not any(s in name for s in sel):
            continue
        d = tempfile.mkdtemp(prefix="mut-", dir="/tmp")
        try:
            for pkg in ("gbn", "mailbox"):
                shutil.copytree(os.path.join(REPO, pkg), os.path.join(d, pkg))
            p = os.path.join(d, f)
            s = open(p).read()
            if s.count(old) != 1:
                print("MUTANT %-40s does not apply (count=%d)" % (name, s.count(old)))
                continue
            open(p, "w").write(s.replace(old, new))
            b = subprocess.run(["go", "build", "./..."], cwd=os.path.join(d, f.split("/")[0]), capture_output=True, text=True,
                               env=dict(os.environ, GOFLAGS="-mod=mod"))
            if b.returncode != 0:
                print("MUTANT %-40s does not compile: %s" % (name, b.stderr[:300]))
                continue
            row = []
            for prop in props:
                t0 = time.time()
                r = subprocess.run([os.path.join(VERIF, "check"), prop, "--no-evidence"], capture_output=True, text=True,
                                   env=dict(os.environ, VERIF_REPO=d))
                viol = [l for l in r.stdout.splitlines() if l.startswith("VIOLATION")]
                orc = [l.strip() for l in r.stdout.splitlines() if l.strip().startswith("oracle=")]
                row.append("%s:exit=%d%s" % (prop, r.returncode, (" " + orc[0][:70]) if orc else ""))
            print("MUTANT %-40s %s" % (name, " | ".join(row)), flush=True)
        finally:
            shutil.rmtree(d, ignore_errors=True)

main()
