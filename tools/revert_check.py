#!/usr/bin/env python3
"""For every fixed finding: revert its fix commit in a scratch worktree of /repo (if it reverts cleanly)
and run the quick check of its property there: the check must report the violation again."""
import json, os, subprocess, sys
VERIF = os.path.dirname(os.path.dirname(os.path.abspath(__file__)))
def sh(cmd, **kw):
    r = subprocess.run(cmd, shell=True, stdout=subprocess.PIPE, stderr=subprocess.STDOUT, text=True, **kw)
    return r.returncode, r.stdout
k = json.load(open(os.path.join(VERIF, "known_findings.json")))["findings"]
seen = set()
for f in k:
    if f["status"] != "fixed" or f["commit"] in seen:
        continue
    seen.add(f["commit"])
    c, prop = f["commit"], f["property"]
    sw = "/tmp/rv-" + c
    sh("git -C /repo worktree remove --force %s" % sw)
    sh("git -C /repo worktree add -f %s HEAD -q" % sw)
    try:
        rc, out = sh("git revert -n %s" % c, cwd=sw)
        if rc != 0:
            print("%s %s revert does not apply cleanly (later repairs touch the same lines)" % (c, prop), flush=True)
            continue
        rcb, _ = sh("cd gbn && go build ./... && cd ../mailbox && go build ./...", cwd=sw)
        if rcb != 0:
            print("%s %s reverted tree does not build" % (c, prop), flush=True)
            continue
        rcc, oc = sh("%s %s --no-evidence" % (os.path.join(VERIF, "check"), prop), env=dict(os.environ, VERIF_REPO=sw))
        orc = [l.strip() for l in oc.splitlines() if l.strip().startswith("oracle=")]
        print("%s %s exit=%d %s" % (c, prop, rcc, (orc or [""])[0][:100]), flush=True)
    finally:
        sh("git -C /repo worktree remove --force %s" % sw)
