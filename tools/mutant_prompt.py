import json,sys
pid=sys.argv[1]
p=json.load(open('/tmp/props/%s.json'%pid))
prop={k:p[k] for k in ('id','title','statement','quantifier','anchors')}
prior=json.load(open("/tmp/props/prior.json")).get(pid,[])
PRIOR=""
if len(sys.argv)>2:
    PRIOR="Changes that were ALREADY produced for this property in an earlier round - do NOT repeat these or close variants of them; target different mechanisms, files and trigger conditions (the anchors above list the relevant code, but any non-test source file of gbn/ or mailbox/ is fair game):\n"+"".join(" - "+x+"\n" for x in prior)+"\n"
print(f"""You are given a git worktree of a Go repository at /tmp/wt-{pid} (lightninglabs/lightning-node-connect: a Noise/SPAKE2 encrypted gRPC transport tunnelled over a mailbox relay, with its own Go-Back-N reliable-delivery protocol; the relevant Go modules are gbn/ and mailbox/). Work ONLY inside /tmp/wt-{pid}. Do not read or touch /verif, /repo, /root/spike or any other /tmp/wt-* directory. There is no network. Before go commands run: (use the default environment; do NOT set GOSUMDB=off or GOPROXY=off) Existing tests: `cd gbn && go test -mod=mod -vet=off -count=1 ./...` (about 20 s) and `cd mailbox && go test -mod=mod -vet=off -count=1 ./...` (about 5 s).

This semantic property is supposed to hold for the code base:

{json.dumps(prop, indent=1)}

{PRIOR}TASK: produce TWO independent, realistic code changes ("mutants") to the non-test Go sources, each of which BREAKS this property while
 (a) still compiling (`go build ./...` in gbn and in mailbox),
 (b) passing the complete existing test suites of gbn and mailbox unchanged (run them at least twice, some tests are timing based), and
 (c) being subtle: the breakage must need something specific to manifest - a particular interleaving or timer coincidence, a loss/fault/close at a particular point, a multi-step sequence of operations, an unusual input or configuration, or two cooperating sites that each look fine alone - NOT something that ordinary use would expose at once. Think of plausible refactoring mistakes: off-by-one at a wrap-around, a check dropped in a rarely taken branch, wrong order of lock/timer/reset operations, a state variable not reset on one path, an error swallowed, a boundary condition changed. No trivial sabotage, and do not modify test files.

For each mutant i in {{1,2}} leave these files in the worktree root /tmp/wt-{pid}:
 - MUTANT{{i}}.diff : the `git diff` of the source change against the worktree HEAD (sources only, must apply with `git apply`);
 - MUTANT{{i}}_demo_test.go.txt : a Go test file (state in its first comment line which package directory it must be copied into and under which file name, and the exact `go test -run ...` command) that FAILS with the mutant applied and PASSES on the unmodified tree; it may use package internals and fake transports; it should be deterministic or at least very reliable;
 - MUTANT{{i}}.md : what it breaks, why the existing tests do not notice, what is needed for it to manifest, and the outputs you actually observed (existing suites pass with the mutant applied; demo fails with the mutant; demo passes without it).
Verify all of that yourself by actually running the commands. At the end leave the worktree with NO mutant applied (`git checkout -- .`; remove any demo test you copied into a package dir; the deliverable files in the worktree root stay). Finish with a brief summary of the two mutants.""")
